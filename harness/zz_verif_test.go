package main

// Compiled into /repo/cmd/hranoprovod-cli by -overlay (never copied there). See /verif/DESIGN.md 3.1.

import (
	"os"
	"testing"

	"github.com/aquilax/hranoprovod-cli/cmd/hranoprovod-cli/v3/internal/verifdrv"
)

func TestMain(m *testing.M) {
	if mode := os.Getenv("VERIF_MODE"); mode != "" {
		os.Exit(verifdrv.Main(mode, GetApp))
	}
	os.Exit(m.Run())
}
