package verifdrv

import (
	"bufio"
	"encoding/json"
	"errors"
	"fmt"
	"io"
	"os"
	"path/filepath"
	"strings"
	"sync"
	"time"

	"github.com/aquilax/hranoprovod-cli/v3/parser"
)

func init() {
	modes["cli-replay"] = cliReplay
}

// ---- Cli.tla terminal states ----

type absFile struct {
	N  int    `json:"n"`
	P  string `json:"p"`
	At int    `json:"at"`
}

type cliCase struct {
	Cmd    string  `json:"cmd"`
	Book   absFile `json:"book"`
	Log    absFile `json:"log"`
	SinkOk bool    `json:"sinkOk"`
	Pc     string  `json:"pc"`
	Err    struct {
		Kind string `json:"kind"`
		File string `json:"file"`
		At   int    `json:"at"`
	} `json:"err"`
	Days int  `json:"days"`
	Lost bool `json:"lost"`
}

var shapeArgs = map[string][]string{
	"reg":       {"--no-color", "reg"},
	"reg-old":   {"--no-color", "reg", "--use-old-reg-reporter"},
	"reg-left":  {"--no-color", "reg", "--internal-template-name", "left-aligned"},
	"reg-s":     {"reg", "-s", "calories"},
	"reg-sg":    {"reg", "-s", "calories", "-g"},
	"reg-f":     {"reg", "-f", "zz"},
	"bal":       {"bal"},
	"bal-c":     {"bal", "-c"},
	"bal-cl":    {"bal", "--collapse-last"},
	"bal-s":     {"bal", "-s", "calories"},
	"csv-log":   {"csv", "log"},
	"csv-db":    {"csv", "database"},
	"csv-dbres": {"csv", "database-resolved"},
	"print":     {"print"},
	"summary":   {"--no-color", "summary", "2021/01/01"},
	"rep-unres": {"report", "unresolved"},
	"rep-qty":   {"report", "quantity"},
	"rep-tot":   {"report", "totals"},
	"rep-elem":  {"report", "element-total", "calories"},
	"stats":     {"stats"},
	"lint":      {"lint", "log.yaml"},
	"lint-s":    {"lint", "-s", "log.yaml"},
	"reg-e":     {"--no-color", "reg", "-e", "2021/01/01"},
	"bal-e":     {"bal", "-e", "2021/01/01"},
	"csv-log-e": {"csv", "log", "-e", "2021/01/01"},
	"print-e":   {"-e", "2021/01/01", "print"},
	"rep-qty-e": {"-e", "2021/01/01", "report", "quantity"},
	"rep-tot-e": {"-e", "2021/01/01", "report", "totals"},
}

// realised is a concrete file for one abstract file state
type realised struct {
	text     string // full content
	badLine  int    // physical line of the planted malformed line (0 = none)
	badText  string
	failAt   int    // byte offset at which an injected read failure happens (-1 = none)
	longText string // variant with a line longer than the scanner's buffer instead of a read failure
	missing  bool
}

const badEntry = "  broken-entry"

func realiseBook(f absFile) realised {
	r := realised{failAt: -1, missing: f.P == "missing"}
	var sb, lb strings.Builder
	line := 0
	add := func(s string) {
		sb.WriteString(s + "\n")
		lb.WriteString(s + "\n")
		line++
	}
	if f.P == "deep" {
		add("food1:")
		add("  food2: 1")
		add("# a chain of four references")
		add("food2:")
		add("  food3: 2")
		add("food3:")
		add("  food4: 1")
		add("food4:")
		add("  calories: 3")
		r.text = sb.String()
		r.longText = r.text
		return r
	}
	for k := 1; k <= f.N; k++ {
		add(fmt.Sprintf("food%d:", k))
		add(fmt.Sprintf("  calories: %d", 10*k))
		if f.P == "unreadable" && f.At == k {
			r.failAt = sb.Len()
			lb.WriteString("  " + strings.Repeat("x", longLineLen()) + ": 1\n")
		}
		if k%2 == 0 {
			add("")
		}
		add(fmt.Sprintf("  fat: %d", k))
		if f.P == "malformed" && f.At == k {
			add(badEntry)
			r.badLine, r.badText = line, badEntry
		}
	}
	if f.P == "unreadable" && f.At == f.N+1 {
		r.failAt = sb.Len()
		lb.WriteString("  " + strings.Repeat("x", longLineLen()) + ": 1\n")
	}
	r.text = sb.String()
	r.longText = lb.String()
	return r
}

func realiseLog(f absFile, sameDate bool) realised {
	r := realised{failAt: -1, missing: f.P == "missing"}
	var sb, lb strings.Builder
	line := 0
	add := func(s string) {
		sb.WriteString(s + "\n")
		lb.WriteString(s + "\n")
		line++
	}
	add("# log")
	for k := 1; k <= f.N; k++ {
		d := k
		if sameDate {
			d = 1
		}
		if f.P == "baddate" && f.At == k {
			add("someday:")
		} else {
			add(fmt.Sprintf("2021/01/%02d:", d))
		}
		add("  food1: 1")
		if f.P == "unreadable" && f.At == k {
			r.failAt = sb.Len()
			lb.WriteString("  " + strings.Repeat("y", longLineLen()) + ": 1\n")
		}
		add("  zzunknown: 2")
		add("  calories: 5")
		if f.P == "malformed" && f.At == k {
			add(badEntry)
			r.badLine, r.badText = line, badEntry
		}
		add("")
	}
	if f.P == "unreadable" && f.At == f.N+1 {
		r.failAt = sb.Len()
		lb.WriteString("  " + strings.Repeat("y", longLineLen()) + ": 1\n")
	}
	r.text = sb.String()
	r.longText = lb.String()
	return r
}

// longLineLen: a line length beyond what the parser's line buffer takes.  The limit is a parameter of the implementation
// (bufio.Scanner's default of 64 KiB today), so it is probed on the real parser: the shortest of 70 000, 1 MiB+, 16 MiB+
// bytes at which reading a single entry line fails.  0: no such length found (lines are not limited) - the over-long-line
// realisation of an unreadable file is then left out and only failing readers / directories are used.
var longLineOnce sync.Once
var longLineN int

func longLineLen() int {
	longLineOnce.Do(func() {
		for _, n := range []int{70000, 1<<20 + 17, 1<<24 + 17} {
			in := "H:\n  " + strings.Repeat("x", n) + ": 1\n"
			_, ret, p := runCallbackParser(strings.NewReader(in), "stop")
			if ret != nil || p != nil {
				longLineN = n
				return
			}
		}
	})
	return longLineN
}

var errBookRead = fmt.Errorf("book: %w", errInjected)
var errLogRead = fmt.Errorf("log: %w", errInjected)

// classify maps the error a command returned to the specification's error kinds
func classify(err error) (kind string, line int) {
	var bs *parser.ErrorBadSyntax
	var ec *parser.ErrorConversion
	var pe *time.ParseError
	switch {
	case err == nil:
		return "none", 0
	case errors.As(err, &bs):
		return "malformed", bs.LineNumber
	case errors.As(err, &ec):
		return "malformed", ec.LineNumber
	case errors.Is(err, errInjected), errors.Is(err, bufio.ErrTooLong):
		return "unreadable", 0
	case errors.Is(err, os.ErrNotExist):
		return "missing", 0
	case strings.Contains(err.Error(), "maximum resolution depth"):
		return "deep", 0
	case errors.As(err, &pe):
		return "baddate", 0
	case errors.Is(err, errSink):
		return "write", 0
	}
	return "other:" + err.Error(), 0
}

// classifyStderr maps exit status and error text of the real binary to the specification's error kinds.  The wording
// of messages is not part of any property (only that a malformed line is quoted with its number): when the text is
// not recognised, a non-zero exit counts as the error the specification expects (expect), except for "malformed",
// which must quote badText and badLine.
func classifyStderr(exit int, stderr string, expect string, badText string, badLine int) (kind string, line int) {
	if exit != 0 && expect == "malformed" && badText != "" && strings.Contains(stderr, badText) && strings.Contains(stderr, fmt.Sprint(badLine)) {
		return "malformed", badLine
	}
	k, l := classifyStderrText(exit, stderr)
	if strings.HasPrefix(k, "other:") && exit != 0 && expect != "malformed" && expect != "none" {
		return expect, 0
	}
	return k, l
}

func classifyStderrText(exit int, stderr string) (kind string, line int) {
	switch {
	case exit == 0:
		return "none", 0
	case strings.Contains(stderr, "bad syntax on line"), strings.Contains(stderr, "error converting"):
		fmt.Sscanf(stderr[strings.Index(stderr, "on line")+8:], "%d", &line)
		return "malformed", line
	case strings.Contains(stderr, "token too long"), strings.Contains(stderr, "is a directory"):
		return "unreadable", 0
	case strings.Contains(stderr, "no such file"):
		return "missing", 0
	case strings.Contains(stderr, "maximum resolution depth"):
		return "deep", 0
	case strings.Contains(stderr, "parsing time"):
		return "baddate", 0
	case strings.Contains(stderr, "no space left"), strings.Contains(stderr, "write "):
		return "write", 0
	case strings.Contains(stderr, "panic:"), strings.Contains(stderr, "SIGSEGV"):
		return "panic", 0
	}
	return "other:" + stderr, 0
}

// cliReplay: every terminal state of Cli.tla (command shape x where the first problem of each file
// sits x sink) is realised as concrete files and run (1) in-process with injected failing readers /
// writer, (2) in-process with the over-long-line form of an unreadable file, (3) on the real binary.
func cliReplay(e *env) error {
	useBin := e.argInt("binary", 1) == 1 && os.Getenv("VERIF_BIN") != ""
	scratch := os.Getenv("VERIF_SCRATCH")
	var cases []cliCase
	if err := e.eachCase(func(raw json.RawMessage) error {
		var c cliCase
		if err := json.Unmarshal(raw, &c); err != nil {
			return err
		}
		cases = append(cases, c)
		return nil
	}); err != nil {
		return err
	}
	var mu sync.Mutex
	report := func(shape, what string, c cliCase, extra map[string]interface{}) {
		mu.Lock()
		defer mu.Unlock()
		extra["case"] = c
		e.mismatch(shape, "cmd/hranoprovod-cli", what, extra)
	}
	work := make(chan int, 64)
	var wg sync.WaitGroup
	runs := 0
	for w := 0; w < nWorkers(); w++ {
		wg.Add(1)
		go func(w int) {
			defer wg.Done()
			dir := filepath.Join(scratch, fmt.Sprintf("cli-w%d", w))
			os.MkdirAll(dir, 0o755)
			for idx := range work {
				c := cases[idx]
				n := runCliCase(c, dir, useBin, report)
				mu.Lock()
				runs += n
				mu.Unlock()
			}
		}(w)
	}
	for i, c := range cases {
		e.sum.Cases++
		if c.Book.P != "none" || c.Log.P != "none" || !c.SinkOk {
			e.sum.Nontrivial++
		}
		if i%2500 == 3 {
			e.sample(c)
		}
		work <- i
	}
	close(work)
	wg.Wait()
	e.sum.Runs = runs
	return nil
}

func runCliCase(c cliCase, dir string, useBin bool, report func(string, string, cliCase, map[string]interface{})) int {
	runs := 0
	book := realiseBook(c.Book)
	lg := realiseLog(c.Log, c.Cmd == "summary")
	isLint := strings.HasPrefix(c.Cmd, "lint")
	wantLine := 0
	if c.Err.Kind == "malformed" {
		if c.Err.File == "book" {
			wantLine = book.badLine
		} else {
			wantLine = lg.badLine
		}
	}
	// the property leaves lint's exit status after reported malformed lines open: not compared
	skipStatus := isLint && c.Log.P == "malformed"
	check := func(variant string, kind string, line int, detail string) {
		if skipStatus {
			return
		}
		if kind == c.Err.Kind && (kind != "malformed" || line == wantLine) {
			return
		}
		// with more than one problem present, which of the errors wins is a detail of the pipeline
		// order that no property fixes: only success / failure is compared
		problems := 0
		if c.Book.P != "none" {
			problems++
		}
		if c.Log.P != "none" {
			problems++
		}
		if !c.SinkOk {
			problems++
		}
		if problems > 1 && (kind == "none") == (c.Err.Kind == "none") && !strings.HasPrefix(kind, "other") {
			return
		}
		shape := "cli-" + c.Err.Kind + "-reported-as-" + strings.SplitN(kind, ":", 2)[0]
		report(shape, fmt.Sprintf("%s [%s]: book=%+v log=%+v sinkOk=%v: specification: error %q (line %d), code: %q (line %d) %s",
			strings.Join(shapeArgs[c.Cmd], " "), variant, c.Book, c.Log, c.SinkOk, c.Err.Kind, wantLine, kind, line, detail),
			c, map[string]interface{}{"variant": variant, "book": book.text, "log": lg.text})
	}
	args := append([]string{"--maxdepth", "3"}, shapeArgs[c.Cmd]...)
	if isLint {
		args = shapeArgs[c.Cmd]
	}
	// ---------- (1)+(2) in-process ----------
	if c.Cmd != "stats" {
		for _, variant := range []string{"failing-reader", "long-line"} {
			if variant == "long-line" && (c.Book.P != "unreadable" && c.Log.P != "unreadable" || longLineLen() == 0) {
				continue
			}
			files := map[string]fileSrc{}
			mk := func(r realised, e error) fileSrc {
				if r.missing {
					return nil
				}
				if variant == "long-line" {
					return strSrc(r.longText)
				}
				if r.failAt >= 0 {
					return func() io.Reader {
						return &faultReader{data: []byte(r.text), failAt: r.failAt, style: r.failAt % 3, err: e}
					}
				}
				return strSrc(r.text)
			}
			files["food.yaml"] = mk(book, errBookRead)
			files["log.yaml"] = mk(lg, errLogRead)
			out := &failWriter{limit: -1}
			if !c.SinkOk {
				out.limit = 0
			}
			res := runInProc(args, files, out)
			runs++
			if res.Panicked != nil {
				report("cli-panic", fmt.Sprintf("%v panics: %v", args, res.Panicked), c, map[string]interface{}{"book": book.text, "log": lg.text})
				if c.Err.Kind != "none" {
					// a crash is also not the error the specification predicts (no message, no line number)
					report("cli-"+c.Err.Kind+"-reported-as-panic", fmt.Sprintf("%v panics (%v) where the specification predicts the %s error", args, res.Panicked, c.Err.Kind), c, map[string]interface{}{"book": book.text, "log": lg.text})
				}
				continue
			}
			if res.TimedOut {
				report("cli-hang", fmt.Sprintf("%v does not return", args), c, map[string]interface{}{"book": book.text, "log": lg.text})
				continue
			}
			kind, line := classify(res.Err)
			check("in-process/"+variant, kind, line, errText(res.Err))
		}
	}
	// ---------- (3) the real binary (a read failure is realised as an over-long line) ----------
	if (useBin || c.Cmd == "stats") && !((c.Book.P == "unreadable" || c.Log.P == "unreadable") && longLineLen() == 0) {
		os.Remove(filepath.Join(dir, "food.yaml"))
		os.Remove(filepath.Join(dir, "log.yaml"))
		if !book.missing {
			writeFile(filepath.Join(dir, "food.yaml"), book.longText)
		}
		if !lg.missing {
			writeFile(filepath.Join(dir, "log.yaml"), lg.longText)
		}
		if os.Getenv("VERIF_BIN") != "" {
			var so *os.File
			if !c.SinkOk {
				so, _ = os.OpenFile("/dev/full", os.O_WRONLY, 0)
			}
			r := runBinary(dir, nil, so, args...)
			if so != nil {
				so.Close()
			}
			runs++
			if r.TimedOut {
				report("cli-hang", fmt.Sprintf("binary %v does not exit", args), c, map[string]interface{}{"book": book.longText[:min(len(book.longText), 400)], "log": lg.text})
			} else {
				kind, line := classifyStderr(r.Exit, r.Stderr, c.Err.Kind, badTextOf(book, lg), wantLine)
				if kind == "panic" {
					report("cli-panic", fmt.Sprintf("binary %v crashes: %s", args, firstLine(r.Stderr)), c, map[string]interface{}{})
					if c.Err.Kind != "none" {
						report("cli-"+c.Err.Kind+"-reported-as-panic", fmt.Sprintf("binary %v crashes where the specification predicts the %s error", args, c.Err.Kind), c, map[string]interface{}{})
					}
				} else {
					check("binary", kind, line, fmt.Sprintf("exit=%d stderr=%q", r.Exit, firstLine(r.Stderr)))
				}
			}
		}
	}
	return runs
}

func badTextOf(book, lg realised) string {
	if book.badText != "" {
		return book.badText
	}
	return lg.badText
}

func firstLine(s string) string {
	if i := strings.IndexByte(s, '\n'); i >= 0 {
		return s[:i]
	}
	return s
}

func min(a, b int) int {
	if a < b {
		return a
	}
	return b
}
