package verifdrv

import (
	"fmt"
	"io"
	"strings"
)

func init() {
	modes["read-fault-enum"] = readFaultEnum
}

func eventsEqual(a, b pEvent) bool {
	if a.T != b.T || a.Header != b.Header || len(a.Elements) != len(b.Elements) || len(a.Notes) != len(b.Notes) {
		return false
	}
	for i := range a.Elements {
		if a.Elements[i].Name != b.Elements[i].Name || !sameFloat(a.Elements[i].Value, b.Elements[i].Value) {
			return false
		}
	}
	for i := range a.Notes {
		if a.Notes[i] != b.Notes[i] {
			return false
		}
	}
	return true
}

// readFaultEnum: for generated small files, the reader fails at EVERY byte offset 0..len (three styles of
// failing).  Whatever the offset, the parser must return an error, and the records it delivered before
// must be a prefix of the records of the complete file; the same for commands reading the file as
// log and as book.
func readFaultEnum(e *env) error {
	files := e.argInt("files", 300)
	for f := 0; f < files; f++ {
		lines := genFile(e, 9, 0, 3, 4, 4, 2)
		cc := newTraceConcretiser(e, 3, 4, 4, 2)
		// headings that are dates so that the commands can walk the file as a log
		cc.heads = []string{"", "2021/01/01", "2021/01/02", "2021/02/03"}
		var sb strings.Builder
		for _, l := range lines {
			sb.WriteString(cc.lineText(l) + "\n")
		}
		data := sb.String()
		// every fourth file also carries malformed lines: lint lists them and must still fail on the read error
		lintData := data
		if f%4 == 0 {
			lintData = strings.Replace(data, "\n", "\n  broken-entry\n", 2)
		}
		full, ret0, p0 := runPolicy(strings.NewReader(data), "continue", 0)
		if p0 != nil || ret0 != nil {
			e.mismatch("parser-wellformed-fails", "parser/parser.go", fmt.Sprintf("well-formed file fails: %v %v (input %q)", ret0, p0, data), map[string]interface{}{"input": data})
			continue
		}
		if f < 2 {
			e.sample(map[string]interface{}{"input": data, "offsets": len(data) + 1})
		}
		step := 1
		if len(data) > 160 {
			step = 3
		}
		if len(data) > 3000 {
			// a file with a line beyond bufio's buffer: offsets around the buffer boundaries and a sparse sweep
			step = 1 + len(data)/150
		}
		for k := 0; k <= len(data); k += step {
			if len(data) > 3000 && k > 4200 && k%4096 > 8 && k%4096 < 4088 && (k/step)%3 != 0 {
				continue
			}
			if k < len(data) {
				e.sum.Nontrivial++
			}
			style := (k + f) % 3
			got, ret, p := runPolicy(&faultReader{data: []byte(data), failAt: k, style: style, err: errBookRead}, "stopOnError", 0)
			e.sum.Runs++
			rec := map[string]interface{}{"input": data, "failAt": k, "style": style}
			switch {
			case p != nil:
				e.mismatch("parser-panic", "parser/parser.go", fmt.Sprintf("panic %v with the read failing at byte %d of %q", p, k, data), rec)
			case ret == nil:
				e.mismatch("read-failure-reported-as-success", "parser/parser.go", fmt.Sprintf("read fails at byte %d of %d, parser returns nil (input %q)", k, len(data), data), rec)
			default:
				ni := 0
				for _, g := range got {
					if g.T != "node" {
						continue
					}
					if ni >= len(full) || !eventsEqual(g, full[ni]) {
						e.mismatch("read-failure-invents-record", "parser/parser.go", fmt.Sprintf("read fails at byte %d: record %d delivered is %+v, not a record of the complete file (input %q)", k, ni, g, data), rec)
						break
					}
					ni++
				}
			}
			// the same file as log of `csv log` / `report quantity`, and as book of `csv database-resolved`
			if k%2 == 0 {
				for ci, args := range [][]string{{"csv", "log"}, {"report", "quantity"}, {"csv", "database-resolved"}, {"--no-color", "reg"}, {"lint", "log.yaml"}, {"lint", "-s", "log.yaml"},
					{"csv", "log", "-e", "2021/01/01"}, {"-e", "2021/01/01", "report", "quantity"}, {"--no-color", "summary", "2021/01/01"}} {
					in := data
					if args[0] == "lint" {
						in = lintData
					}
					kk := k
					if kk > len(in) {
						kk = len(in)
					}
					files := map[string]fileSrc{
						"log.yaml":  func() io.Reader { return &faultReader{data: []byte(in), failAt: kk, style: style, err: errLogRead} },
						"food.yaml": strSrc(""),
					}
					if ci == 2 {
						files = map[string]fileSrc{
							"food.yaml": func() io.Reader { return &faultReader{data: []byte(data), failAt: k, style: style, err: errBookRead} },
						}
					}
					out := &failWriter{limit: -1}
					res := runInProc(args, files, out)
					e.sum.Runs++
					if res.Panicked != nil {
						e.mismatch("cli-panic", "cmd/hranoprovod-cli", fmt.Sprintf("%v panics: %v", args, res.Panicked), rec)
					} else if res.Err == nil {
						e.mismatch("cli-unreadable-reported-as-none", "cmd/hranoprovod-cli", fmt.Sprintf("%v: read fails at byte %d of %d, command succeeds with output %q (input %q)", args, k, len(data), out.buf.String(), data), rec)
					}
				}
			}
		}
	}
	return nil
}
