package verifdrv

import (
	"bytes"
	"encoding/json"
	"errors"
	"fmt"
	"math/rand"
	"os"
	"os/exec"
	"path/filepath"
	"regexp"
	"strings"
	"syscall"
	"time"
)

func init() {
	modes["options-replay"] = optionsReplay
}

type optCase struct {
	Flag           map[string]bool   `json:"flag"`
	Env            map[string]bool   `json:"env"`
	Cfg            map[string]bool   `json:"cfg"`
	DefaultPresent bool              `json:"defaultPresent"`
	CFlag          string            `json:"cflag"`
	CEnv           string            `json:"cenv"`
	NoDb           bool              `json:"nodb"`
	Pc             string            `json:"pc"`
	Loaded         string            `json:"loaded"`
	Eff            map[string]string `json:"eff"`
}

// distinguishable values at every level
var optBooks = map[string]struct {
	file string
	recs int
}{"flag": {"book_flag.yaml", 1}, "env": {"book_env.yaml", 2}, "config/default": {"book_cfg_default.yaml", 3}, "config/flag": {"book_cfg_flag.yaml", 4}, "config/env": {"book_cfg_env.yaml", 5}, "default": {"food.yaml", 6}}
var optLogs = map[string]struct {
	file string
	recs int
}{"flag": {"log_flag.yaml", 7}, "env": {"log_env.yaml", 8}, "config/default": {"log_cfg_default.yaml", 9}, "config/flag": {"log_cfg_flag.yaml", 10}, "config/env": {"log_cfg_env.yaml", 11}, "default": {"log.yaml", 12}}
var optFmts0 = map[string]string{"flag": "2006-01-02", "env": "02.01.2006", "config/default": "01|02|2006", "config/flag": "2006_01_02", "config/env": "02~01~2006", "default": "2006/01/02"}
var optDepths0 = map[string]int{"flag": 3, "env": 5, "config/default": 7, "config/flag": 8, "config/env": 9, "default": 10}
var optNows = map[string]time.Time{"flag": time.Date(2020, 2, 3, 0, 0, 0, 0, time.UTC), "config/default": time.Date(2019, 3, 4, 0, 0, 0, 0, time.UTC), "config/flag": time.Date(2018, 4, 5, 0, 0, 0, 0, time.UTC), "config/env": time.Date(2017, 5, 6, 0, 0, 0, 0, time.UTC)}

const optUID = 54321

func recordsFile(n int, prefix string) string {
	var sb strings.Builder
	for i := 1; i <= n; i++ {
		fmt.Fprintf(&sb, "%s%d:\n  x: 1\n", prefix, i)
	}
	return sb.String()
}

func chainBook(refs int) string {
	var sb strings.Builder
	for i := 0; i < refs; i++ {
		if i < refs-1 {
			fmt.Fprintf(&sb, "c%02d:\n  c%02d: 1\n", i, i+1)
		} else {
			fmt.Fprintf(&sb, "c%02d:\n  leaf: 1\n", i)
		}
	}
	return sb.String()
}

// prepareOptionsDir writes every file any configuration can name; world readable (the binary runs as an
// unknown uid so that user.Current() falls back to $HOME for the default configuration location)
func prepareOptionsDir(dir string) error { return prepareOptionsDirFmt(dir, "") }

// with layout != "": the records of the log files carry dated headings in that layout
func prepareOptionsDirFmt(dir string, layout string) error {
	if err := os.MkdirAll(filepath.Join(dir, ".hranoprovod"), 0o755); err != nil {
		return err
	}
	for _, b := range optBooks {
		writeFile(filepath.Join(dir, b.file), recordsFile(b.recs, "food"))
	}
	for _, l := range optLogs {
		if layout == "" {
			writeFile(filepath.Join(dir, l.file), recordsFile(l.recs, "day"))
			continue
		}
		var sb strings.Builder
		for i := 1; i <= l.recs; i++ {
			fmt.Fprintf(&sb, "%s:\n  x: 1\n", time.Date(2021, 1, i, 0, 0, 0, 0, time.UTC).Format(layout))
		}
		writeFile(filepath.Join(dir, l.file), sb.String())
	}
	for n := 2; n <= 11; n++ {
		writeFile(filepath.Join(dir, fmt.Sprintf("chain%02d.yaml", n)), chainBook(n))
	}
	for p := dir; p != "/" && p != "."; p = filepath.Dir(p) {
		os.Chmod(p, 0o755)
		if filepath.Dir(p) == "/tmp" || filepath.Dir(p) == "/" {
			break
		}
	}
	return nil
}

func configText(which string, cfg map[string]bool, dir string, optFmts map[string]string, optDepths map[string]int) string {
	var g, r strings.Builder
	if cfg["today"] {
		fmt.Fprintf(&g, "Now=%s\n", optNows["config/"+which].Format(time.RFC3339))
	}
	if cfg["db"] {
		fmt.Fprintf(&g, "DbFileName=%s\n", filepath.Join(dir, optBooks["config/"+which].file))
	}
	if cfg["log"] {
		fmt.Fprintf(&g, "LogFileName=%s\n", filepath.Join(dir, optLogs["config/"+which].file))
	}
	if cfg["fmt"] {
		fmt.Fprintf(&g, "DateFormat=%s\n", optFmts["config/"+which])
	}
	if cfg["depth"] {
		fmt.Fprintf(&r, "MaxDepth=%d\n", optDepths["config/"+which])
	}
	return "[Global]\n" + g.String() + "[Resolver]\n" + r.String()
}

// a comment header of more than 4 KiB in front of a configuration (a file is a file whatever its size)
func bigHeader(text string) string {
	return strings.Repeat("; this configuration file was generated - do not edit the header ........\n", 70) + text
}

// stats output is read label by label (further lines may be added to it: only the labelled figures are compared)
type statsMatcher struct{}

var statsRe statsMatcher

func (statsMatcher) FindStringSubmatch(out string) []string {
	m := []string{out}
	for _, label := range []string{"Database file", "Database records", "Log file", "Log records", "Today"} {
		r := regexp.MustCompile(`(?m)^[ \t]*` + label + `:[ \t]*(.*)$`).FindStringSubmatch(out)
		if r == nil {
			return nil
		}
		m = append(m, strings.TrimSpace(r[1]))
	}
	return m
}

func runAs(dir string, env []string, args ...string) binResult {
	cmd := exec.Command(os.Getenv("VERIF_BIN"), args...)
	cmd.Dir = dir
	cmd.Env = append([]string{"HOME=" + dir, "USER=verif", "PATH=/usr/bin:/bin", "TZ=UTC"}, env...)
	cmd.SysProcAttr = &syscall.SysProcAttr{Credential: &syscall.Credential{Uid: optUID, Gid: optUID, NoSetGroups: true}}
	var so, se bytes.Buffer
	cmd.Stdout, cmd.Stderr = &so, &se
	err := cmd.Run()
	r := binResult{Stdout: so.String(), Stderr: se.String()}
	if err != nil {
		var ee *exec.ExitError
		if errors.As(err, &ee) {
			r.Exit = ee.ExitCode()
		} else {
			r.Exit = -1
			r.Stderr += err.Error()
		}
	}
	return r
}

// key of the value a source token stands for ("config" is refined by which file was loaded)
func srcKey(tok, loaded string) string {
	if tok == "config" {
		return "config/" + loaded
	}
	return tok
}

// optionsReplay: every terminal state of Options.tla is realised on the real binary in a scratch HOME:
// `stats` reveals the effective book and log (name and number of records), the date format (shape of
// the Today line) and the current date; two `csv database-resolved` probes reveal the resolve depth.
func optionsReplay(e *env) error {
	scratch := os.Getenv("VERIF_SCRATCH")
	stride := e.argInt("stride", 1)
	// can we run as an unknown uid? (needed for the default configuration location)
	probe := filepath.Join(scratch, "opt-probe")
	prepareOptionsDir(probe)
	if r := runAs(probe, nil, "--version"); r.Exit != 0 {
		return fmt.Errorf("cannot run the binary as uid %d: %s", optUID, r.Stderr)
	}
	var n int
	return e.parallelCases(func(idx int, raw json.RawMessage, rng *rand.Rand) error {
		c := &optCase{}
		if err := json.Unmarshal(raw, c); err != nil {
			return err
		}
		e.count(1, 0, 0)
		if stride > 1 && (idx+int(e.seed))%stride != 0 {
			return nil
		}
		_ = n
		// values: distinguishable at every level; in two of five cases the flag's (resp. the environment's) value
		// EQUALS the documented default, which must still beat the configuration file
		optDepths, optFmts := map[string]int{}, map[string]string{}
		for k, v := range optDepths0 {
			optDepths[k] = v
		}
		for k, v := range optFmts0 {
			optFmts[k] = v
		}
		switch idx % 5 {
		case 1:
			optDepths["flag"], optFmts["flag"] = optDepths0["default"], optFmts0["default"]
		case 3:
			optDepths["env"], optFmts["env"] = optDepths0["default"], optFmts0["default"]
		}
		// a configuration file may be a symbolic link
		link := idx%4 == 2
		writeCfg := func(path, text string) {
			if idx%6 == 5 {
				text = bigHeader(text)
			}
			if !link {
				writeFile(path, text)
				return
			}
			real := filepath.Join(filepath.Dir(path), "real-"+filepath.Base(path))
			writeFile(real, text)
			os.Remove(path)
			if err := os.Symlink(real, path); err != nil {
				writeFile(path, text)
			}
		}
		dir := filepath.Join(scratch, fmt.Sprintf("opt-%d", idx%48))
		// one directory per concurrent slot is not safe across goroutines: use a per-case directory
		dir = filepath.Join(scratch, fmt.Sprintf("opt-case-%d", idx))
		effFmt0 := optFmts[srcKey(c.Eff["fmt"], c.Loaded)]
		if c.Pc == "error" {
			effFmt0 = ""
		}
		if err := prepareOptionsDirFmt(dir, effFmt0); err != nil {
			return err
		}
		defer os.RemoveAll(dir)
		var args, env []string
		defCfg := filepath.Join(dir, ".hranoprovod", "config")
		if c.DefaultPresent {
			writeCfg(defCfg, configText("default", c.Cfg, dir, optFmts, optDepths))
		}
		switch c.CFlag {
		case "exists":
			writeCfg(filepath.Join(dir, "cfgflag.ini"), configText("flag", c.Cfg, dir, optFmts, optDepths))
			args = append(args, "--config", filepath.Join(dir, "cfgflag.ini"))
		case "missing":
			args = append(args, "--config", filepath.Join(dir, "no-such-flag.ini"))
		}
		switch c.CEnv {
		case "exists":
			writeCfg(filepath.Join(dir, "cfgenv.ini"), configText("env", c.Cfg, dir, optFmts, optDepths))
			env = append(env, "HR_CONFIG="+filepath.Join(dir, "cfgenv.ini"))
		case "missing":
			env = append(env, "HR_CONFIG="+filepath.Join(dir, "no-such-env.ini"))
		}
		effFmt := optFmts[srcKey(c.Eff["fmt"], c.Loaded)]
		if c.Pc == "error" {
			effFmt = optFmts["default"]
		}
		if c.Flag["db"] {
			args = append(args, "-d", filepath.Join(dir, optBooks["flag"].file))
		}
		if c.Env["db"] {
			env = append(env, "HR_DATABASE="+filepath.Join(dir, optBooks["env"].file))
		}
		if c.Flag["log"] {
			args = append(args, "-l", filepath.Join(dir, optLogs["flag"].file))
		}
		if c.Env["log"] {
			env = append(env, "HR_LOGFILE="+filepath.Join(dir, optLogs["env"].file))
		}
		if c.Flag["fmt"] {
			args = append(args, "--date-format", optFmts["flag"])
		}
		if c.Env["fmt"] {
			env = append(env, "HR_DATE_FORMAT="+optFmts["env"])
		}
		if c.Flag["depth"] {
			args = append(args, "--maxdepth", fmt.Sprint(optDepths["flag"]))
		}
		if c.Env["depth"] {
			env = append(env, "HR_MAXDEPTH="+fmt.Sprint(optDepths["env"]))
		}
		if c.Flag["today"] {
			args = append(args, "--today", optNows["flag"].Format(effFmt))
		}
		if c.NoDb {
			args = append(args, []string{"--no-database", "--no-database=true"}[idx%2])
		} else if idx%7 == 3 {
			args = append(args, "--no-database=false") // the switch spelled out as off: the book comes from the usual sources
		}
		nontrivial := 0
		for _, s := range []string{"db", "log", "fmt", "depth", "today"} {
			k := 0
			if c.Flag[s] {
				k++
			}
			if c.Env[s] {
				k++
			}
			if c.Cfg[s] {
				k++
			}
			if k >= 2 {
				nontrivial = 1
			}
		}
		e.count(0, 0, nontrivial)
		rec := map[string]interface{}{"case": c, "args": args, "env": env}
		r := runAs(dir, env, append(append([]string{}, args...), "stats")...)
		e.count(0, 1, 0)
		if idx%9000 == 1 {
			e.sample(map[string]interface{}{"args": args, "env": env, "default_config_present": c.DefaultPresent, "spec_effective": c.Eff, "stats_output": r.Stdout})
		}
		if c.Pc == "error" {
			if r.Exit == 0 {
				e.mismatch("missing-config-accepted", "cmd/hranoprovod-cli/internal/options/options.go", fmt.Sprintf("%v %v: the named configuration file does not exist, specification predicts an error; exit 0", env, args), rec)
			}
			return nil
		}
		if r.Exit != 0 {
			e.mismatch("options-command-fails", "cmd/hranoprovod-cli/internal/options/options.go", fmt.Sprintf("%v %v stats fails (exit %d): %s; specification predicts loaded=%s eff=%v", env, args, r.Exit, firstLine(r.Stderr), c.Loaded, c.Eff), rec)
			return nil
		}
		m := statsRe.FindStringSubmatch(r.Stdout)
		if m == nil {
			e.mismatch("stats-unparsable", "cmd/hranoprovod-cli/internal/stats", fmt.Sprintf("stats output %q", r.Stdout), rec)
			return nil
		}
		// book
		wantBook, wantBookRecs := "", "0"
		if c.Eff["db"] != "empty" {
			b := optBooks[srcKey(c.Eff["db"], c.Loaded)]
			wantBook, wantBookRecs = b.file, fmt.Sprint(b.recs)
		}
		if filepath.Base(m[1]) != wantBook && !(wantBook == "" && m[1] == "") || m[2] != wantBookRecs {
			e.mismatch("setting-db-wrong-source", "cmd/hranoprovod-cli/internal/options/options.go", fmt.Sprintf("%v %v: book is %q with %s records, specification predicts source %q = %q with %s records", env, args, m[1], m[2], c.Eff["db"], wantBook, wantBookRecs), rec)
		}
		l := optLogs[srcKey(c.Eff["log"], c.Loaded)]
		if filepath.Base(m[3]) != l.file || m[4] != fmt.Sprint(l.recs) {
			e.mismatch("setting-log-wrong-source", "cmd/hranoprovod-cli/internal/options/options.go", fmt.Sprintf("%v %v: log is %q with %s records, specification predicts source %q = %q with %d records", env, args, m[3], m[4], c.Eff["log"], l.file, l.recs), rec)
		}
		// date format: the headings of every log file are written in the layout the specification predicts;
		// `csv log` reads them back only if the code parses with that layout
		cl := runAs(dir, env, append(append([]string{}, args...), "csv", "log")...)
		e.count(0, 1, 0)
		if cl.Exit != 0 || strings.Count(cl.Stdout, "\n") != l.recs || !strings.HasPrefix(cl.Stdout, "2021-01-01,") {
			e.mismatch("setting-fmt-wrong-source", "cmd/hranoprovod-cli/internal/options/options.go", fmt.Sprintf("%v %v csv log: exit %d %s, %d rows; the log's headings are in layout %q (specification: fmt from %q)", env, args, cl.Exit, firstLine(cl.Stderr), strings.Count(cl.Stdout, "\n"), effFmt, c.Eff["fmt"]), rec)
		}
		// current date (the Today line is printed in the reporter's layout: parsed leniently in any of the layouts)
		today := strings.TrimSpace(m[5])
		var got time.Time
		for _, lay := range optFmts {
			if t, err := time.Parse(lay, today); err == nil {
				got = t
			}
		}
		if c.Eff["today"] == "default" {
			if got.Year() < 2024 {
				e.mismatch("setting-today-wrong-source", "cmd/hranoprovod-cli/internal/options/options.go", fmt.Sprintf("%v %v: Today line %q, specification predicts the clock's date", env, args, today), rec)
			}
		} else if want := optNows[srcKey(c.Eff["today"], c.Loaded)]; !got.Equal(want) {
			e.mismatch("setting-today-wrong-source", "cmd/hranoprovod-cli/internal/options/options.go", fmt.Sprintf("%v %v: Today line %q, specification predicts %s (today from %q)", env, args, today, want.Format("2006-01-02"), c.Eff["today"]), rec)
		}
		// the current date also governs the distances stats prints (first heading of every log: 2021-01-01)
		if c.Eff["today"] != "default" {
			want := optNows[srcKey(c.Eff["today"], c.Loaded)]
			wantAgo := int(want.Sub(time.Date(2021, 1, 1, 0, 0, 0, 0, time.UTC)).Hours() / 24)
			ma := regexp.MustCompile(`First record:\s*\S+ \((-?\d+) days ago\)`).FindStringSubmatch(r.Stdout)
			if ma == nil || ma[1] != fmt.Sprint(wantAgo) {
				e.mismatch("setting-today-wrong-source", "cmd/hranoprovod-cli/internal/stats", fmt.Sprintf("%v %v: stats prints %q for a first record of 2021-01-01; with today = %s (from %q) it is %d days ago", env, args, ma, want.Format("2006-01-02"), c.Eff["today"], wantAgo), rec)
			}
		}
		// depth: two probes with the book given by -d (a configuration with the same depth sources)
		if c.Flag["depth"] || c.Env["depth"] || c.Cfg["depth"] || idx%7 == 0 {
			nDepth := optDepths[srcKey(c.Eff["depth"], c.Loaded)]
			var pargs []string
			skip := false
			for i := 0; i < len(args); i++ {
				if args[i] == "-d" {
					i++
					continue
				}
				if strings.HasPrefix(args[i], "--no-database") {
					if c.NoDb {
						skip = true
					}
					continue // (--no-database=false: the probe names its own book with -d anyway)
				}
				pargs = append(pargs, args[i])
			}
			if !skip {
				for _, probe := range []struct {
					refs int
					fail bool
				}{{nDepth, true}, {nDepth - 1, false}} {
					pa := append(append([]string{}, pargs...), "-d", filepath.Join(dir, fmt.Sprintf("chain%02d.yaml", probe.refs)), "csv", "database-resolved")
					pr := runAs(dir, env, pa...)
					e.count(0, 1, 0)
					failed := pr.Exit != 0 && strings.Contains(pr.Stderr, "maximum resolution depth")
					if failed != probe.fail || (pr.Exit != 0 && !failed) {
						e.mismatch("setting-depth-wrong-source", "cmd/hranoprovod-cli/internal/options/options.go", fmt.Sprintf("%v %v: a chain of %d references exits %d (%s); specification predicts depth %d from %q", env, pa, probe.refs, pr.Exit, firstLine(pr.Stderr), nDepth, c.Eff["depth"]), rec)
						break
					}
				}
			}
		}
		return nil
	})
}
