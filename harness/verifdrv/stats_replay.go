package verifdrv

import (
	"encoding/json"
	"fmt"
	"math/rand"
	"os"
	"path/filepath"
	"regexp"
	"strings"
)

func init() {
	modes["stats-replay"] = statsReplay
}

var statsFull = regexp.MustCompile(`(?s)Database records:\s*(\d+)\n.*?Log records:\s*(\d+)\n.*?Today:\s*(\S+)\n.*?First record:\s*(\S+) \((-?\d+) days ago\)\n.*?Last record:\s*(\S+) \((-?\d+) days ago\)`)

// statsReplay (C07, last clause): for every enumerated log of Walk.tla, `stats` must report the number of
// headings of the log and of the book, the first and last heading in file order and their distance in
// days from --today, as StatsOf predicts
func statsReplay(e *env) error {
	scratch := os.Getenv("VERIF_SCRATCH")
	stride := e.argInt("stride", 1)
	return e.parallelCases(func(idx int, raw json.RawMessage, rng *rand.Rand) error {
		var c struct {
			walkCase
			Stats struct {
				Records  int `json:"records"`
				First    int `json:"first"`
				Last     int `json:"last"`
				FirstAgo int `json:"firstAgo"`
				LastAgo  int `json:"lastAgo"`
			} `json:"stats"`
		}
		if err := json.Unmarshal(raw, &c); err != nil {
			return err
		}
		e.count(1, 0, 0)
		// the headings are in the configured date format: the default one, or another given with --date-format
		layout := []string{"2006/01/02", "2006-01-02", "02.01.2006"}[idx%3]
		if c.Kind != "period" || c.BG.K != "none" || c.EG.K != "none" || c.BS.K != "none" || c.ES.K != "none" {
			return nil // stats takes no period: one run per log
		}
		if stride > 1 && (idx+int(e.seed))%stride != 0 {
			return nil
		}
		if len(c.Log) == 0 {
			return nil // an empty log has no first / last record
		}
		dir := filepath.Join(scratch, fmt.Sprintf("stats-%d", idx))
		os.MkdirAll(dir, 0o755)
		defer os.RemoveAll(dir)
		nb := rng.Intn(5)
		var bk strings.Builder
		for i := 0; i < nb; i++ {
			fmt.Fprintf(&bk, "food%d:\n  x: 1\n", i%3) // repeated headings count as records too
		}
		writeFile(filepath.Join(dir, "b.yaml"), bk.String())
		writeFile(filepath.Join(dir, "l.yaml"), walkLog(c.Log, nil, layout))
		out := &failWriter{limit: -1}
		args := []string{"--date-format", layout, "--today", dayStr(c.Today, layout), "-d", filepath.Join(dir, "b.yaml"), "-l", filepath.Join(dir, "l.yaml"), "stats"}
		res := runInProc(args, nil, out)
		e.count(0, 1, 1)
		rec := map[string]interface{}{"case": c, "stats_output": out.buf.String()}
		if res.Err != nil || res.Panicked != nil {
			e.mismatch("report-fails", "cmd/hranoprovod-cli/internal/stats", fmt.Sprintf("stats fails: %v %v", res.Err, res.Panicked), rec)
			return nil
		}
		m := statsFull.FindStringSubmatch(out.buf.String())
		want := []string{fmt.Sprint(nb), fmt.Sprint(c.Stats.Records), dayStr(c.Today, layout), dayStr(c.Stats.First, layout), fmt.Sprint(c.Stats.FirstAgo), dayStr(c.Stats.Last, layout), fmt.Sprint(c.Stats.LastAgo)}
		if m == nil || strings.Join(m[1:], "|") != strings.Join(want, "|") {
			e.mismatch("stats-differs-from-log", "cmd/hranoprovod-cli/internal/stats", fmt.Sprintf("stats prints %q; the files have %v (book records, log records, today, first, days ago, last, days ago)", out.buf.String(), want), rec)
		}
		if idx%20000 == 0 {
			e.sample(map[string]interface{}{"log_days": c.Log, "today": c.Today, "stats_output": out.buf.String()})
		}
		return nil
	})
}
