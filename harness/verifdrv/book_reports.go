package verifdrv

import (
	"encoding/json"
	"fmt"
	"math/rand"
	"sort"
	"strings"
)

func init() {
	modes["book-reports-replay"] = bookReportsReplay
}

// bookReportsReplay: the terminal states of Resolver.tla (book -> resolved book | depth error) through the
// CLI: the book is written as a file (odd names: commas, quotes, non-ASCII) and exported with
// `csv database` (one row per entry, file order, duplicates kept), `csv database-resolved` (sorted by
// recipe then element = the specification's resolved book) and `report element-total X` for every
// element X (= the matching rows of the resolved export, sorted by amount).  All CSV is read with the
// strict RFC 4180 reader.
func bookReportsReplay(e *env) error {
	stride := e.argInt("stride", 1)
	return e.parallelCases(func(idx int, raw json.RawMessage, rng *rand.Rand) error {
		var c resolverCase
		if err := json.Unmarshal(raw, &c); err != nil {
			return err
		}
		e.count(1, 0, 0)
		// (books whose size is within one recipe of the limit are always replayed: that is where the outcome flips)
		if stride > 1 && (idx+int(e.seed))%stride != 0 && !(e.argInt("allcmds", 0) == 1 && len(c.Book) >= c.N-1 && len(c.Book) <= c.N+1) {
			return nil
		}
		k := maxID(&c)
		if k < 1 {
			k = 1
		}
		names := pickNames(rng, mergedPool(), k)
		unit := []float64{1, 0.5, 0.25}[idx%3]
		w := &world{uq: 1, ua: unit}
		cc := &concretiser{rng: rng}
		defined := map[int]bool{}
		for _, r := range c.Book {
			defined[r.Name] = true
		}
		// file order = a random declaration order (forward and backward references)
		order := rng.Perm(len(c.Book))
		var sb strings.Builder
		type rawRow struct {
			rec, name string
			milli     int64
		}
		var rawRows []rawRow
		fileRecs := make([]absRecipe, 0, len(c.Book))
		for _, p := range order {
			fileRecs = append(fileRecs, c.Book[p])
		}
		if len(c.Decl) > 0 {
			fileRecs = c.Decl // the enumerated declaration order, repeated headings included (the last one wins)
		}
		for _, r := range fileRecs {
			sb.WriteString(names[r.Name] + ":\n")
			for _, in := range r.Ingr {
				v := float64(in[1])
				if !defined[in[0]] {
					v *= unit
				}
				sb.WriteString(cc.entryLine(names[in[0]], fmtNum(v, rng)) + "\n")
				rawRows = append(rawRows, rawRow{names[r.Name], names[in[0]], int64(v * 1000)})
			}
		}
		x := &cmpCtx{e: e, c: c, w: w, book: sb.String(), log: ""}
		if len(c.Book) >= 2 {
			e.count(0, 0, 1)
		}
		if idx%20000 == 3 {
			e.sample(map[string]interface{}{"book": x.book, "n": c.N, "spec_status": c.Status, "spec_resolved": c.DB})
		}
		site := "cmd/hranoprovod-cli/internal/csv"
		// ---- csv database: raw entries in file order ----
		traceIt := e.tr != nil && (idx/stride)%e.argInt("trace_every", 4) == 0
		if out, ok := x.run("csv", "database"); ok {
			if traceIt {
				want := [][2][]int{}
				for _, rr := range rawRows {
					want = append(want, [2][]int{codePoints(rr.rec), codePoints(rr.name)})
				}
				e.emitCsvTrace("database", 2, out, want)
			}
			recs, err := parseCSVStrict(out)
			switch {
			case err != nil:
				x.bad("csv-invalid", site, "csv database is not valid RFC 4180: "+err.Error())
			case len(recs) != len(rawRows):
				x.bad("csv-database-rows", site, fmt.Sprintf("csv database has %d rows, the book has %d entries", len(recs), len(rawRows)))
			default:
				for i, rr := range rawRows {
					v, okv := int64(0), false
					if len(recs[i]) == 3 {
						v, okv = parseMilli(recs[i][2])
					}
					// raw coefficients printed with two decimals: unit 0.25 x odd = x.25 / x.75 exactly
					if len(recs[i]) != 3 || recs[i][0] != rr.rec || recs[i][1] != rr.name || !okv || v != rr.milli {
						x.bad("csv-database-rows", site, fmt.Sprintf("csv database row %d is %q, the file's entry %d is (%q, %q, %d/1000)", i, recs[i], i, rr.rec, rr.name, rr.milli))
						break
					}
				}
			}
		}
		// ---- csv database-resolved ----
		args := []string{"--maxdepth", fmt.Sprint(c.N), "csv", "database-resolved"}
		out := &failWriter{limit: -1}
		res := runInProc(args, map[string]fileSrc{"food.yaml": strSrc(x.book)}, out)
		e.count(0, 1, 0)
		if res.Panicked != nil || res.TimedOut {
			x.bad("cli-panic", site, fmt.Sprintf("%v panics: %v", args, res.Panicked))
			return nil
		}
		if (res.Err == nil) != (c.Status == "ok") || (res.Err != nil && !isDepthErr(res.Err)) {
			x.bad("resolver-status", "resolver/resolver.go", fmt.Sprintf("%v returns %v, specification predicts %s", args, res.Err, c.Status))
			return nil
		}
		// every command that resolves the book must honour the same limit (C11): same outcome as the specification's
		if e.argInt("allcmds", 0) == 1 {
			anyEl := "leaf"
			for _, r := range c.Book {
				for _, in := range r.Ingr {
					anyEl = names[in[0]]
				}
			}
			if anyEl == "h" || anyEl == "help" {
				anyEl = "leaf"
			}
			lg := "2021/01/01:\n  some food: 1\n"
			for _, cmd := range [][]string{{"--no-color", "reg"}, {"bal"}, {"bal", "-s", anyEl}, {"--no-color", "summary", "2021/01/01"}, {"report", "totals"},
				{"report", "unresolved"}, {"report", "element-total", anyEl}, {"reg", "-s", anyEl}, {"reg", "-s", anyEl, "-g"}} {
				a := append([]string{"--maxdepth", fmt.Sprint(c.N)}, cmd...)
				o := &failWriter{limit: -1}
				r := runInProc(a, map[string]fileSrc{"food.yaml": strSrc(x.book), "log.yaml": strSrc(lg)}, o)
				e.count(0, 1, 0)
				if r.Panicked != nil || r.TimedOut {
					x.bad("cli-panic", "cmd/hranoprovod-cli", fmt.Sprintf("%v panics: %v", a, r.Panicked))
				} else if (r.Err == nil) != (c.Status == "ok") || (r.Err != nil && !isDepthErr(r.Err)) {
					x.bad("resolver-status", "resolver/resolver.go", fmt.Sprintf("%v returns %v, specification predicts %s for this book at limit %d", a, r.Err, c.Status, c.N))
				}
			}
		}
		if c.Status != "ok" {
			return nil
		}
		type resRow struct {
			rec, el string
			milli   int64
		}
		var want []resRow
		recsSorted := append([]absRecipe{}, c.DB...)
		sort.Slice(recsSorted, func(i, j int) bool { return names[recsSorted[i].Name] < names[recsSorted[j].Name] })
		for _, r := range recsSorted {
			for _, el := range r.Ingr {
				want = append(want, resRow{names[r.Name], names[el[0]], int64(float64(el[1]) * unit * 1000)})
			}
		}
		if traceIt {
			wr := [][2][]int{}
			for _, r := range want {
				wr = append(wr, [2][]int{codePoints(r.rec), codePoints(r.el)})
			}
			e.emitCsvTrace("resolved", 2, out.buf.String(), wr)
		}
		recs, err := parseCSVStrict(out.buf.String())
		if err != nil {
			x.bad("csv-invalid", site, "csv database-resolved is not valid RFC 4180: "+err.Error())
			return nil
		}
		okr := len(recs) == len(want)
		for i := 0; okr && i < len(want); i++ {
			v, okv := int64(0), false
			if len(recs[i]) == 3 {
				v, okv = parseMilli(recs[i][2])
			}
			okr = len(recs[i]) == 3 && recs[i][0] == want[i].rec && recs[i][1] == want[i].el && okv && v == want[i].milli
		}
		if !okr {
			x.bad("csv-database-resolved-rows", site, fmt.Sprintf("csv database-resolved prints %q, specification predicts %+v", recs, want))
			return nil
		}
		// ---- report element-total X = the rows of the resolved export with element X ----
		els := map[string]bool{}
		for _, r := range want {
			els[r.el] = true
		}
		for el := range els {
			if el == "h" || el == "help" {
				// urfave/cli gives every command a `help` sub-command with the alias `h`: an element of that
				// name cannot be passed as the positional argument (noted in DESIGN.md, not judged)
				continue
			}
			for _, desc := range []bool{false, true} {
				var exp []regIngr
				for _, r := range want {
					if r.el == el {
						exp = append(exp, regIngr{r.rec, r.milli})
					}
				}
				// name order, then stable by amount
				sort.SliceStable(exp, func(i, j int) bool {
					if desc {
						return exp[i].Val > exp[j].Val
					}
					return exp[i].Val < exp[j].Val
				})
				a := []string{"--maxdepth", fmt.Sprint(c.N), "report", "element-total"}
				if desc {
					a = append(a, "--desc")
				}
				a = append(a, el)
				o, ok := x.run(a...)
				if !ok {
					continue
				}
				rows, err := parseNumTabName(o)
				// the same rows, ordered by amount in the requested direction; the order among equal amounts is
				// fixed by no property (only that it is the same on every run: C05) and is not compared
				same := err == nil && len(rows) == len(exp)
				cnt := map[regIngr]int{}
				for _, r := range exp {
					cnt[r]++
				}
				for i := 0; same && i < len(rows); i++ {
					cnt[rows[i]]--
					if i > 0 && ((!desc && rows[i].Val < rows[i-1].Val) || (desc && rows[i].Val > rows[i-1].Val)) {
						same = false
					}
				}
				for _, v := range cnt {
					if v != 0 {
						same = false
					}
				}
				if !same {
					x.bad("element-total-differs-from-resolved-csv", "cmd/hranoprovod-cli/internal/report", fmt.Sprintf("%v prints %+v (err %v); the rows of csv database-resolved with that element are %+v", a, rows, err, exp))
				}
			}
		}
		return nil
	})
}
