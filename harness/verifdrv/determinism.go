package verifdrv

import (
	"fmt"
	"os"
	"path/filepath"
	"strings"
)

func init() {
	modes["determinism"] = determinism
}

// inputs chosen to unmask map iteration order: many unresolved foods, ties in the sort keys of report
// quantity and report element-total, many siblings / elements, chains right at the depth limit
func orderUnmaskingInputs(e *env, round int) (book, log string) {
	var bk, lg strings.Builder
	n := 5 + e.rng.Intn(8)
	names := pickNames(e.rng, plainPool, 30)
	for i := 1; i <= n; i++ {
		// recipes with equal amounts of "calories" (ties in element-total) and a few different ones
		amt := 10
		if i%4 == 0 {
			amt = 10 + i
		}
		// fat amounts with a third decimal 5: the period sum sits on a rounding boundary, so the order of
		// float additions (map order) would show in the second decimal
		fat := []string{"1.115", "2.165", "0.155", "0.105", "1.005", "3.335", "0.445"}[i%7]
		fmt.Fprintf(&bk, "%s:\n  calories: %d\n  fat: %s\n  %s: 1\n  placeholder: 2\n", names[i], amt, fat, names[20+i%5])
	}
	// recipes whose FIRST ingredient is another recipe, taken once (quantity exactly 1), several of them sharing it
	for i := 1; i <= 3; i++ {
		fmt.Fprintf(&bk, "combo%d:\n  %s: 1\n  extra%d: %d\n  %s: 0.5\n", i, names[1], i, i+1, names[2])
	}
	// foods in separate top-level categories whose quantities cancel catastrophically (1e16, -1e16, 1, 1): a sum
	// taken in map order instead of file order changes its first digit from run to run
	for i := 1; i <= 4; i++ {
		fmt.Fprintf(&bk, "cat%d/cancel:\n  fat: 1\n  calories: 1\n", i)
	}
	// a recipe without ingredients that other recipes refer to
	bk.WriteString("placeholder:\n")
	// a chain of references at the limit (13 references: fails at the default limit whatever the order) or below it
	chain := 9
	if round%3 == 0 {
		chain = 13
	}
	for i := 0; i < chain; i++ {
		if i < chain-1 {
			fmt.Fprintf(&bk, "chain%02d:\n  chain%02d: 1\n", i, i+1)
		} else {
			fmt.Fprintf(&bk, "chain%02d:\n  calories: 1\n", i)
		}
	}
	for d := 1; d <= 3; d++ {
		fmt.Fprintf(&lg, "2021/10/%02d:\n", d)
		for i := 1; i <= n; i++ {
			fmt.Fprintf(&lg, "  %s: 1\n", names[i]) // equal quantities: ties in report quantity
		}
		for i := 1; i <= n; i += 2 {
			fmt.Fprintf(&lg, "  %s: 0.5\n", names[i]) // long days (> 16 entries) in which foods repeat
		}
		for i := 1; i <= 3; i++ {
			fmt.Fprintf(&lg, "  combo%d: %d\n", i, i)
		}
		if d == 2 {
			lg.WriteString("  cat1/cancel: 1e16\n  cat2/cancel: -1e16\n  cat3/cancel: 1\n  cat4/cancel: 1\n")
		}
		for i := 0; i < 6; i++ {
			fmt.Fprintf(&lg, "  unknown/%s/%s: 2\n", names[10+i], names[11+i]) // unresolved foods, siblings in the balance tree
		}
	}
	return bk.String(), lg.String()
}

// determinism (C05): every command shape N times in one process and M times as separate processes on
// order-unmasking inputs: all runs byte-identical, same success or failure.  (Which order ties are put
// in is not part of the statement - only that it is the same on every run - so it is not compared.)
func determinism(e *env) error {
	rounds := e.argInt("rounds", 3)
	N := e.argInt("n", 40)
	M := e.argInt("m", 5)
	scratch := os.Getenv("VERIF_SCRATCH")
	bin := os.Getenv("VERIF_BIN")
	shapes := append([][]string{}, crashShapes...)
	shapes = append(shapes, []string{"report", "element-total", "fat"}, []string{"report", "element-total", "--desc", "fat"}, []string{"bal", "-s", "fat", "-c"})
	for r := 0; r < rounds; r++ {
		book, log := orderUnmaskingInputs(e, r)
		if r < 1 {
			e.sample(map[string]interface{}{"book": trunc(book), "log": trunc(log)})
		}
		dir := filepath.Join(scratch, fmt.Sprintf("det-%d", r))
		os.MkdirAll(dir, 0o755)
		writeFile(filepath.Join(dir, "food.yaml"), book)
		writeFile(filepath.Join(dir, "log.yaml"), log)
		for _, args := range shapes {
			e.sum.Cases++
			e.sum.Nontrivial++
			rec := map[string]interface{}{"args": args, "book": trunc(book), "log": trunc(log)}
			var first string
			for i := 0; i < N; i++ {
				out := &failWriter{limit: -1}
				res := runInProc(args, map[string]fileSrc{"food.yaml": strSrc(book), "log.yaml": strSrc(log)}, out)
				e.sum.Runs++
				got := out.buf.String() + "\x00" + fmt.Sprint(res.Err) + fmt.Sprint(res.Panicked)
				if i == 0 {
					first = got
				} else if got != first {
					e.mismatch("output-differs-between-runs", "cmd/hranoprovod-cli", fmt.Sprintf("%v: run %d prints %q, run 0 printed %q", args, i, trunc(got), trunc(first)), rec)
					break
				}
			}
			if bin != "" && len(args) > 0 && args[0] != "lint" {
				var firstB string
				for i := 0; i < M; i++ {
					b := runBinary(dir, nil, nil, args...)
					e.sum.Runs++
					got := b.Stdout + "\x00" + fmt.Sprint(b.Exit)
					if i == 0 {
						firstB = got
						// the process prints what the in-process run printed (colour aside: same flags)
						if b.Stdout != strings.SplitN(first, "\x00", 2)[0] && !hasArg(args, "stats") { // (stats reads its files by name: the in-process run sees none)
							e.mismatch("output-differs-between-runs", "cmd/hranoprovod-cli", fmt.Sprintf("%v: the binary prints %q, the in-process run %q", args, trunc(b.Stdout), trunc(first)), rec)
						}
					} else if got != firstB {
						e.mismatch("output-differs-between-runs", "cmd/hranoprovod-cli", fmt.Sprintf("%v: process %d prints %q (exit), process 0 %q", args, i, trunc(got), trunc(firstB)), rec)
						break
					}
				}
			}
		}
	}
	return nil
}

func hasArg(args []string, a string) bool {
	for _, x := range args {
		if x == a {
			return true
		}
	}
	return false
}
