package verifdrv

import (
	"encoding/json"
	"fmt"
	"strings"

	shared "github.com/aquilax/hranoprovod-cli/v3"
	"github.com/aquilax/hranoprovod-cli/v3/resolver"
)

// ---- abstract book as dumped by Resolver.tla (BookSeq) ----

type absRecipe struct {
	Name int     `json:"name"`
	Ingr [][]int `json:"ingr"` // [name id, coefficient]
}

type resolverCase struct {
	Decl   []absRecipe `json:"decl"` // the records of the book file in declaration order (may repeat a heading)
	Book   []absRecipe `json:"book"`
	N      int         `json:"n"`
	Order  []int       `json:"order"`
	Status string      `json:"status"`
	DB     []absRecipe `json:"db"`
}

func init() {
	modes["resolver-replay"] = resolverReplay
}

func maxID(c *resolverCase) int {
	m := 0
	for _, r := range append(append([]absRecipe{}, c.Book...), c.Decl...) {
		if r.Name > m {
			m = r.Name
		}
		for _, in := range r.Ingr {
			if in[0] > m {
				m = in[0]
			}
		}
	}
	return m
}

// buildDB concretises the abstract book; insertion order = first `order`, then the remaining recipes.
// Coefficients of ingredients that the book does not define (leaf edges) are multiplied by unit, so
// that every resolved amount is exactly unit times the specification's integer (every path ends in
// exactly one leaf edge); unit is a power of two, hence all float arithmetic is exact.
func buildDB(book []absRecipe, names []string, order []int, unit float64) shared.DBNodeMap {
	defined := map[int]*absRecipe{}
	for i := range book {
		defined[book[i].Name] = &book[i]
	}
	db := shared.NewDBNodeMap()
	push := func(id int) {
		r := defined[id]
		if r == nil {
			return
		}
		if _, dup := db[names[id]]; dup {
			return
		}
		n := &shared.DBNode{Header: names[id], Elements: shared.NewElements()}
		for _, in := range r.Ingr {
			v := float64(in[1])
			if defined[in[0]] == nil {
				v *= unit
			}
			n.Elements.Add(names[in[0]], v)
		}
		db.Push(n)
	}
	for _, id := range order {
		push(id)
	}
	for _, r := range book {
		push(r.Name)
	}
	return db
}

func sameOrder(visited []string, names []string, order []int) bool {
	if len(visited) != len(order) {
		return false
	}
	for i := range order {
		if visited[i] != names[order[i]] {
			return false
		}
	}
	return true
}

// compareDB returns "" when db equals the expected abstract resolved book
func compareDB(db shared.DBNodeMap, want []absRecipe, names []string, unit float64) string {
	if len(db) != len(want) {
		return fmt.Sprintf("resolved book has %d recipes, specification predicts %d", len(db), len(want))
	}
	for _, r := range want {
		n, ok := db[names[r.Name]]
		if !ok {
			return fmt.Sprintf("recipe %q missing after Resolve", names[r.Name])
		}
		if n.Header != names[r.Name] {
			return fmt.Sprintf("recipe %q has header %q", names[r.Name], n.Header)
		}
		if len(n.Elements) != len(r.Ingr) {
			return fmt.Sprintf("recipe %q resolves to %d elements %v, specification predicts %d %v", names[r.Name], len(n.Elements), n.Elements, len(r.Ingr), r.Ingr)
		}
		for i, in := range r.Ingr {
			if n.Elements[i].Name != names[in[0]] || n.Elements[i].Value != float64(in[1])*unit {
				return fmt.Sprintf("recipe %q element %d is %q=%v, specification predicts %q=%v", names[r.Name], i, n.Elements[i].Name, n.Elements[i].Value, names[in[0]], float64(in[1])*unit)
			}
		}
	}
	return ""
}

func cloneDB(db shared.DBNodeMap) shared.DBNodeMap {
	out := shared.NewDBNodeMap()
	for k, n := range db {
		el := make(shared.Elements, len(n.Elements))
		copy(el, n.Elements)
		out[k] = &shared.DBNode{Header: n.Header, Elements: el, Metadata: n.Metadata}
	}
	return out
}

// orderKey identifies (book shape size, visiting order) by abstract ids
func orderKey(book []absRecipe, names []string, visited []string) string {
	ids := make([]int, len(visited))
	for i, v := range visited {
		for _, r := range book {
			if names[r.Name] == v {
				ids[i] = r.Name
			}
		}
	}
	return fmt.Sprint(len(book), ids)
}

func isDepthErr(err error) bool {
	return err != nil && strings.Contains(err.Error(), "maximum resolution depth")
}

// resolverReplay: every terminal state TLC enumerated (book, limit, visiting order -> outcome) is
// driven through the real resolver.  The visiting order is forced through the public API alone:
// the map is filled in the target order and Resolve is repeated (on fresh copies) until the
// VerifVisit hook reports that the runtime picked exactly that order.
func resolverReplay(e *env) error {
	tries0 := e.argInt("tries", 64)
	reps := e.argInt("reps", 12)
	pool := mergedPool()
	forced, unforced := 0, 0
	ordersSeen := map[string]bool{}
	units := []float64{1, 0.5, 0.25}
	idx := 0
	err := e.eachCase(func(raw json.RawMessage) error {
		var c resolverCase
		if err := json.Unmarshal(raw, &c); err != nil {
			return err
		}
		idx++
		e.sum.Cases++
		k := maxID(&c)
		if k < 1 {
			k = 1
		}
		names := pickNames(e.rng, pool, k)
		unit := units[idx%len(units)]
		cfg := resolver.Config{MaxDepth: c.N}
		tries := tries0
		nontrivial := false
		for _, r := range c.Book {
			if len(r.Ingr) >= 2 {
				nontrivial = true
			}
			for _, in := range r.Ingr {
				for _, r2 := range c.Book {
					if r2.Name == in[0] {
						nontrivial = true
					}
				}
			}
		}
		if nontrivial {
			e.sum.Nontrivial++
		}
		if idx%5000 == 1 {
			e.sample(map[string]interface{}{"case": c, "names": names[1:], "unit": unit})
		}
		// --- function API with the order forced ---
		var visited []string
		resolver.VerifVisit = func(n string) { visited = append(visited, n) }
		got := false
		// more than 8 recipes: the map has several buckets and the order cannot be forced; the
		// insertion order is shuffled instead and a fixed number of runs is made
		canForce := len(c.Book) <= 8
		if !canForce {
			tries = reps
		}
		for t := 0; t < tries; t++ {
			ins := c.Order
			if !canForce {
				ins = make([]int, len(c.Book))
				for i, p := range e.rng.Perm(len(c.Book)) {
					ins[i] = c.Book[p].Name
				}
			}
			db := buildDB(c.Book, names, ins, unit)
			visited = visited[:0]
			out, err := resolver.Resolve(cfg, db)
			e.sum.Runs++
			ordersSeen[orderKey(c.Book, names, visited)] = true
			hit := sameOrder(visited, names, c.Order) || (!canForce && t == tries-1)
			// whatever order the runtime picked, the outcome must be the one the specification
			// predicts for this book (TLC has shown it does not depend on the order)
			if (err == nil) != (c.Status == "ok") || (err != nil && !isDepthErr(err)) {
				e.mismatch("resolver-status", "resolver/resolver.go", fmt.Sprintf("Resolve(N=%d) visited %v returned err=%v, specification predicts %s for every order (case order %v)", c.N, visited, err, c.Status, c.Order),
					map[string]interface{}{"case": c, "names": names, "visited": visited, "unit": unit})
				got = true
				break
			}
			if err == nil {
				if d := compareDB(out, c.DB, names, unit); d != "" {
					e.mismatch("resolver-value", "resolver/resolver.go", d+fmt.Sprintf(" (visited %v)", visited),
						map[string]interface{}{"case": c, "names": names, "visited": visited, "unit": unit})
					got = true
					break
				}
			}
			if hit {
				got = true
				forced++
				if err == nil {
					// idempotence: resolving the resolved book changes nothing
					before := cloneDB(out)
					out2, err2 := resolver.Resolve(cfg, out)
					if err2 != nil {
						e.mismatch("resolver-idempotent", "resolver/resolver.go", fmt.Sprintf("second Resolve fails: %v", err2), map[string]interface{}{"case": c, "names": names})
					} else if d := compareDB(out2, c.DB, names, unit); d != "" || len(before) != len(out2) {
						e.mismatch("resolver-idempotent", "resolver/resolver.go", "second Resolve changes the book: "+d, map[string]interface{}{"case": c, "names": names})
					}
				}
				break
			}
		}
		if !got {
			unforced++
		}
		// --- deprecated struct API (order as the runtime picks it) ---
		db := buildDB(c.Book, names, c.Order, unit)
		visited = visited[:0]
		rs := resolver.NewResolver(db, cfg)
		err := rs.Resolve()
		e.sum.Runs++
		if (err == nil) != (c.Status == "ok") || (err != nil && !isDepthErr(err)) {
			e.mismatch("resolver-status-deprecated-api", "resolver/resolver.go", fmt.Sprintf("Resolver.Resolve(N=%d) returned err=%v, specification predicts %s", c.N, err, c.Status),
				map[string]interface{}{"case": c, "names": names, "visited": visited, "unit": unit})
		} else if err == nil {
			if d := compareDB(db, c.DB, names, unit); d != "" {
				e.mismatch("resolver-value-deprecated-api", "resolver/resolver.go", d, map[string]interface{}{"case": c, "names": names, "unit": unit})
			}
		}
		// the same Resolver value used again after the book has changed (a recipe gains an ingredient that is a
		// new recipe): the second Resolve must give what a fresh resolver gives for that book
		if err == nil && len(c.Book) > 0 && c.N >= 4 {
			first := names[c.Book[0].Name]
			extra := &shared.DBNode{Header: "zz extra recipe", Elements: shared.NewElements()}
			extra.Elements.Add("zz extra leaf", 2)
			extra.Elements.Add(names[c.Book[len(c.Book)-1].Name], 3)
			if _, present := db[first]; present && (first != names[c.Book[len(c.Book)-1].Name] || len(c.Book) == 1) {
				db.Push(extra)
				el := db[first].Elements
				el.Add("zz extra recipe", 5)
				db[first].Elements = el
				fresh := cloneDB(db)
				err1 := rs.Resolve()
				_, err2 := resolver.Resolve(cfg, fresh)
				e.sum.Runs += 2
				same := (err1 == nil) == (err2 == nil) && len(db) == len(fresh)
				if same && err1 == nil {
					for k, n := range fresh {
						m, ok := db[k]
						if !ok || len(m.Elements) != len(n.Elements) {
							same = false
							break
						}
						for i := range n.Elements {
							if m.Elements[i] != n.Elements[i] {
								same = false
							}
						}
					}
				}
				if !same {
					e.mismatch("resolver-reused-after-change", "resolver/resolver.go", fmt.Sprintf("a Resolver used again after %q gained the ingredient \"zz extra recipe\" returns %v; a fresh resolver on the same book returns %v and a different book", first, err1, err2),
						map[string]interface{}{"case": c, "names": names})
				}
				err = nil
			}
		}
		return nil
	})
	resolver.VerifVisit = nil
	e.sum.Extra["orders_forced"] = forced
	e.sum.Extra["orders_not_forced"] = unforced
	e.sum.Extra["distinct_visiting_orders_observed"] = len(ordersSeen)
	return err
}
