package verifdrv

import (
	"encoding/json"
	"errors"
	"fmt"
	"io"
	"math/rand"
	"strings"
	"sync"

	shared "github.com/aquilax/hranoprovod-cli/v3"
	"github.com/aquilax/hranoprovod-cli/v3/parser"
)

func init() {
	modes["parser-replay"] = parserReplay
}

// ---- abstract lines (Parser.tla) and their concretisation ----

type absLine struct {
	K string `json:"k"`
	H int    `json:"h"`
	N int    `json:"n"`
	V int    `json:"v"`
	T int    `json:"t"`
}

type absEvent struct {
	T        string  `json:"t"`
	Header   int     `json:"header"`
	Elements [][]int `json:"elements"`
	Notes    []int   `json:"notes"`
	Kind     string  `json:"kind"`
	Line     int     `json:"line"`
}

type parserCase struct {
	Lines  []absLine `json:"lines"`
	Policy struct {
		P string `json:"p"`
		K int    `json:"k"`
	} `json:"policy"`
	Fault struct {
		At   int     `json:"at"`
		Mid  bool    `json:"mid"`
		Part absLine `json:"part"`
	} `json:"fault"`
	Cb  []absEvent `json:"cb"`
	Ret absEvent   `json:"ret"`
}

var numLits = []string{"1", "2", "-2.5", "3e2", "+0.25", ".5", "1.", "12.75", "-0", "1e-3", "0.1", "100", "7.125", "-3", "0", "1E2", "0.30000000000000004", "123456789.125", "4.9e-324", "1.7976931348623157e308"}
var noteForms = []struct{ text, name, value string }{
	{"# meta: value1", "meta", "value1"},
	{"# just text", "", "just text"},
	{"#tight:x", "tight", "x"},
	{"#  kcal : 2 000 ", "kcal", "2 000"},
	{"## double hash", "", "double hash"},
	{"#", "", ""},
	// longer than bufio's 4096-byte buffer, shorter than the scanner's 64 KiB limit: still one line
	{"# big: " + strings.Repeat("x y ", 1500), "big", strings.TrimSpace(strings.Repeat("x y ", 1500))},
}
var badSyntaxForms = []string{"nosep", "a:1", "x", "\"q\"", "a-b:2", "50%cocoa", "%d%s"}
var badNumberForms = []string{"a: x1", "a b", "a: 1,5", "name: 1.2.3", "a: --1", "a: 1e", "b: 0x", "milk 2% fat", "cocoa: 70%", "%v: %d"}
var blankForms = []string{"", "  ", "\t \t", " ", "-", "  - ", ":", "\t-"}
var commentForms = []string{"# comment", "#", "#  a: 1", "#\tx", "# 2021/01/01:"}
var indents = []string{"  ", "\t", " ", "    ", "\t\t", " \t"}
var seps = []string{": ", ":\t", ":   ", ": \t "}
var trails = []string{"", "", " ", "\t", "  "}

// concretiser holds the per-case choice of names, literals and layout
type concretiser struct {
	rng     *rand.Rand
	heads   []string
	names   []string
	vals    []string
	notes   []int  // note id -> noteForms index
	layout  bool   // vary layout
	sameBad string // "" or the one malformed-number text used throughout the file
}

func newConcretiser(rng *rand.Rand, nHeads, nNames, nVals, nNotes int) *concretiser {
	c := &concretiser{rng: rng, layout: true}
	pool := mergedPool()
	c.heads = pickNames(rng, pool, nHeads)
	c.names = pickNames(rng, pool, nNames)
	c.vals = make([]string, nVals+1)
	for i, p := range rng.Perm(len(numLits))[:nVals] {
		c.vals[i+1] = numLits[p]
	}
	c.notes = make([]int, nNotes+1)
	for i := 1; i <= nNotes; i++ {
		c.notes[i] = rng.Intn(len(noteForms))
	}
	if rng.Intn(2) == 0 {
		c.sameBad = badNumberForms[rng.Intn(len(badNumberForms))]
	}
	return c
}

func (c *concretiser) pick(list []string) string { return list[c.rng.Intn(len(list))] }

// entryLine renders one entry in a random layout variant of the documented format
func (c *concretiser) entryLine(name, lit string) string {
	ind := c.pick(indents)
	dash := ""
	switch c.rng.Intn(4) {
	case 0:
		dash = "- "
	case 1:
		if c.rng.Intn(2) == 0 {
			ind, dash = "", "- " // YAML list item in column 0
		}
	}
	nm := name
	if c.rng.Intn(3) == 0 {
		nm = `"` + name + `"`
	}
	return ind + dash + nm + c.pick(seps) + lit + c.pick(trails)
}

// text of one abstract line (without line break)
func (c *concretiser) lineText(l absLine) string {
	switch l.K {
	case "blank":
		return c.pick(blankForms)
	case "comment":
		if c.rng.Intn(25) == 0 {
			// a comment line of 4 KiB .. 60 KiB is one line like any other
			return "# " + strings.Repeat("long comment: 1 ", 260+c.rng.Intn(3400))
		}
		return c.pick(commentForms)
	case "head":
		h := c.heads[l.H]
		if c.rng.Intn(4) == 0 {
			h = `"` + h + `"`
		}
		return h + ":" + c.pick(trails)
	case "note":
		return c.pick(indents) + noteForms[c.notes[l.T]].text + c.pick(trails)
	case "entry":
		return c.entryLine(c.names[l.N], c.vals[l.V])
	case "badsyntax":
		return c.pick(indents) + c.pick(badSyntaxForms) + c.pick(trails)
	case "badnumber":
		if c.sameBad != "" {
			return c.pick(indents) + c.sameBad // the same malformed text on every malformed line of the file
		}
		return c.pick(indents) + c.pick(badNumberForms) + c.pick(trails)
	}
	panic("unknown line kind " + l.K)
}

// faultReader returns data[:failAt] and then err; style 0: (n, err) in the same call as the last
// bytes, style 1: the error in a separate call, style 2: one byte per call
type faultReader struct {
	data   []byte
	pos    int
	failAt int // -1: never
	style  int
	err    error
}

var errInjected = errors.New("injected read failure")

func (f *faultReader) Read(p []byte) (int, error) {
	limit := len(f.data)
	if f.failAt >= 0 && f.failAt < limit {
		limit = f.failAt
	}
	if f.pos >= limit {
		if f.failAt >= 0 {
			return 0, f.err
		}
		return 0, io.EOF
	}
	n := limit - f.pos
	if n > len(p) {
		n = len(p)
	}
	if f.style == 2 && n > 1 {
		n = 1
	}
	copy(p, f.data[f.pos:f.pos+n])
	f.pos += n
	if f.pos >= limit && f.failAt >= 0 && f.style == 0 {
		return n, f.err
	}
	return n, nil
}

var errCallback = errors.New("callback says stop")

// runPolicy runs the real parser under one of the specification's callback policies
func runPolicy(r io.Reader, p string, k int) (events []pEvent, ret error, panicked interface{}) {
	defer func() {
		if x := recover(); x != nil {
			panicked = x
		}
	}()
	nodes := 0
	ret = parser.ParseStreamCallback(r, parser.NewDefaultConfig(), func(n *shared.ParserNode, err error) (bool, error) {
		if err != nil {
			events = append(events, errEvent(err))
			if p != "continue" {
				return true, err
			}
			return false, nil
		}
		if n == nil {
			events = append(events, pEvent{T: "err", ErrKind: "nil-node"})
			return false, nil
		}
		events = append(events, nodeEvent(n))
		nodes++
		if p == "stopAtNode" && nodes == k {
			return true, errCallback
		}
		return false, nil
	})
	return
}

// compareEvents checks the concrete callback events against the abstract ones of the specification
func (c *concretiser) compareEvents(got []pEvent, want []absEvent, texts []string) string {
	if len(got) != len(want) {
		return fmt.Sprintf("code delivered %d callback events, specification predicts %d", len(got), len(want))
	}
	for i, w := range want {
		g := got[i]
		if w.T == "node" {
			if g.T != "node" || g.Header != c.heads[w.Header] {
				return fmt.Sprintf("event %d: code %+v, specification: record %q", i, g, c.heads[w.Header])
			}
			if len(g.Elements) != len(w.Elements) {
				return fmt.Sprintf("event %d: record %q has %d entries %v, specification predicts %d", i, g.Header, len(g.Elements), g.Elements, len(w.Elements))
			}
			for j, el := range w.Elements {
				wv, _ := exactFloat(c.vals[el[1]])
				if g.Elements[j].Name != c.names[el[0]] || !sameFloat(g.Elements[j].Value, wv) {
					return fmt.Sprintf("event %d: entry %d of %q is (%q, %v), specification predicts (%q, %v)", i, j, g.Header, g.Elements[j].Name, g.Elements[j].Value, c.names[el[0]], wv)
				}
			}
			if len(g.Notes) != len(w.Notes) {
				return fmt.Sprintf("event %d: record %q has %d notes, specification predicts %d", i, g.Header, len(g.Notes), len(w.Notes))
			}
			for j, t := range w.Notes {
				f := noteForms[c.notes[t]]
				if g.Notes[j] != [2]string{f.name, f.value} {
					return fmt.Sprintf("event %d: note %d is %q, specification predicts (%q,%q)", i, j, g.Notes[j], f.name, f.value)
				}
			}
		} else {
			kind := map[string]string{"badsyntax": "syntax", "badnumber": "number"}[w.Kind]
			if g.T != "err" || g.ErrKind != kind || g.LineNo != w.Line {
				return fmt.Sprintf("event %d: code %+v, specification: %s error on line %d", i, g, kind, w.Line)
			}
			if w.Line-1 < len(texts) && g.Line != texts[w.Line-1] {
				return fmt.Sprintf("event %d: error quotes %q, the line is %q", i, g.Line, texts[w.Line-1])
			}
		}
	}
	return ""
}

func compareRet(ret error, want absEvent, texts []string) string {
	switch want.T {
	case "nil":
		if ret != nil {
			return fmt.Sprintf("parser returned %v, specification predicts nil", ret)
		}
	case "cbErr":
		if ret != errCallback {
			return fmt.Sprintf("parser returned %v, specification predicts the callback's error", ret)
		}
	case "ioErr":
		if ret == nil || !errors.Is(ret, errInjected) {
			return fmt.Sprintf("parser returned %v, specification predicts the read error", ret)
		}
	case "err":
		if ret == nil {
			return fmt.Sprintf("parser returned nil, specification predicts the %s error of line %d", want.Kind, want.Line)
		}
		ev := errEvent(ret)
		kind := map[string]string{"badsyntax": "syntax", "badnumber": "number"}[want.Kind]
		if ev.ErrKind != kind || ev.LineNo != want.Line {
			return fmt.Sprintf("parser returned %q, specification predicts the %s error of line %d", ret.Error(), kind, want.Line)
		}
		if want.Line-1 < len(texts) && !strings.Contains(ret.Error(), texts[want.Line-1]) {
			return fmt.Sprintf("error %q does not quote the line %q", ret.Error(), texts[want.Line-1])
		}
		if !strings.Contains(ret.Error(), fmt.Sprintf("line %d", want.Line)) {
			return fmt.Sprintf("error %q does not name line %d", ret.Error(), want.Line)
		}
	default:
		return "unknown ret " + want.T
	}
	return ""
}

// bufferBoundarySweep: line accounting where a line terminator meets the end of a read chunk.  A first comment line
// is padded so that its LF, or the CR resp. the LF of its CRLF, is the last / first byte around offsets 4096, 8192
// and 65536 (bufio's buffer sizes); a record with a malformed entry follows.  Whatever the padding, the
// parser must deliver the record and report the malformed entry on line 4 with its exact text.
func bufferBoundarySweep(e *env) {
	for _, nl := range []string{"\n", "\r\n"} {
		for _, boundary := range []int{4096, 8192, 16384, 65536} {
			for delta := -3; delta <= 2; delta++ {
				first := boundary + delta - len(nl) // length of line 1 without its terminator
				if first < 2 || first >= 65530 {
					continue
				}
				bad := "  broken entry 2x \t"
				in := "#" + strings.Repeat("p", first-1) + nl + "2021/01/01:" + nl + "  a: 1" + nl + bad + nl + "  b: 2" + nl
				ev, ret, p := runCallbackParser(strings.NewReader(in), "continue")
				e.sum.Runs++
				ok := p == nil && ret == nil && len(ev) == 2 && ev[0].T == "err" && ev[0].LineNo == 4 && ev[0].Line == bad &&
					ev[1].T == "node" && ev[1].Header == "2021/01/01" && len(ev[1].Elements) == 2
				if !ok {
					e.mismatch("parser-events", "parser/parser.go", fmt.Sprintf("a first line of %d bytes ending in %q (terminator at the buffer boundary %d%+d): the parser delivers %+v (ret %v, panic %v); the file has a malformed entry %q on line 4 and one record with two entries", first, nl, boundary, delta, ev, ret, p, bad),
						map[string]interface{}{"first_line_bytes": first, "newline": nl})
				}
			}
		}
	}
}

// independentParses: two parses in progress at the same time do not disturb each other.  While file A is being parsed
// (from inside its callback, after its first record), file B is parsed completely; and the two files are parsed by
// two goroutines side by side.  Each must deliver exactly what it delivers alone.
func independentParses(e *env) {
	mk := func(tag string, n int) string {
		var sb strings.Builder
		for i := 0; i < n; i++ {
			fmt.Fprintf(&sb, "%s heading %d:\n  # note %s %d\n  %s food %d: %d\n  - \"%s other\": %d.5\n", tag, i, tag, i, tag, i, i, tag, i)
		}
		return sb.String()
	}
	a, b := mk("A", 300), mk("B", 500) // both beyond bufio's first 4096 bytes
	aloneA, _, _ := runCallbackParser(strings.NewReader(a), "continue")
	aloneB, _, _ := runCallbackParser(strings.NewReader(b), "continue")
	same := func(x, y []pEvent) bool {
		if len(x) != len(y) {
			return false
		}
		for i := range x {
			if !eventsEqual(x[i], y[i]) {
				return false
			}
		}
		return true
	}
	// nested
	var gotA, gotB []pEvent
	first := true
	parser.ParseStreamCallback(strings.NewReader(a), lexCfg, func(n *shared.ParserNode, err error) (bool, error) {
		if err == nil && n != nil {
			gotA = append(gotA, nodeEvent(n))
		} else {
			gotA = append(gotA, errEvent(err))
		}
		if first {
			first = false
			gotB, _, _ = runCallbackParser(strings.NewReader(b), "continue")
		}
		return false, nil
	})
	e.sum.Runs += 2
	if !same(gotA, aloneA) || !same(gotB, aloneB) {
		e.mismatch("parser-events", "parser/parser.go", fmt.Sprintf("a parse started from inside another parse's callback: the outer parse delivers %d events (alone: %d), the inner one %d (alone: %d), or different ones", len(gotA), len(aloneA), len(gotB), len(aloneB)), map[string]interface{}{"outer_first_events": gotA[:min(len(gotA), 3)]})
	}
	// side by side
	for round := 0; round < 20; round++ {
		var ra, rb []pEvent
		var wg sync.WaitGroup
		wg.Add(2)
		go func() {
			defer wg.Done()
			ra, _, _ = runCallbackParser(&jitterReader{data: []byte(a), rng: rand.New(rand.NewSource(int64(round))), failAt: -1}, "continue")
		}()
		go func() {
			defer wg.Done()
			rb, _, _ = runCallbackParser(&jitterReader{data: []byte(b), rng: rand.New(rand.NewSource(int64(round) + 99)), failAt: -1}, "continue")
		}()
		wg.Wait()
		e.sum.Runs += 2
		if !same(ra, aloneA) || !same(rb, aloneB) {
			e.mismatch("parser-events", "parser/parser.go", fmt.Sprintf("two goroutines parsing different files side by side: %d and %d events, alone %d and %d (or different ones)", len(ra), len(rb), len(aloneA), len(aloneB)), map[string]interface{}{"round": round})
			break
		}
	}
}

// parserReplay: every terminal state of Parser.tla (file, policy, fault -> events, result) is
// realised as bytes in random layout variants and run through the real parser
func parserReplay(e *env) error {
	variants := e.argInt("variants", 2)
	bufferBoundarySweep(e)
	independentParses(e)
	return e.eachCase(func(raw json.RawMessage) error {
		var c parserCase
		if err := json.Unmarshal(raw, &c); err != nil {
			return err
		}
		e.sum.Cases++
		nontrivial := false
		for _, l := range c.Lines {
			if l.K == "entry" || l.K == "badsyntax" || l.K == "badnumber" {
				nontrivial = true
			}
		}
		if nontrivial {
			e.sum.Nontrivial++
		}
		for v := 0; v < variants; v++ {
			cc := newConcretiser(e.rng, 2, 2, 2, 1)
			nl := "\n"
			if e.rng.Intn(3) == 0 {
				nl = "\r\n"
			}
			var texts []string
			var sb strings.Builder
			failAt := -1
			nLines := len(c.Lines)
			for i, l := range c.Lines {
				if c.Fault.At == i+1 {
					failAt = sb.Len()
					if c.Fault.Mid {
						t := cc.lineText(c.Fault.Part)
						texts = append(texts, t)
						sb.WriteString(t)
						failAt = sb.Len()
					}
					break
				}
				t := cc.lineText(l)
				texts = append(texts, t)
				sb.WriteString(t)
				if i < nLines-1 || e.rng.Intn(2) == 0 {
					sb.WriteString(nl)
				}
			}
			if c.Fault.At == nLines+1 {
				// the read fails at the end of the data: make sure the last line is complete
				if nLines > 0 && !strings.HasSuffix(sb.String(), "\n") {
					sb.WriteString(nl)
				}
				failAt = sb.Len()
			}
			data := []byte(sb.String())
			var rd io.Reader
			if c.Fault.At > 0 {
				rd = &faultReader{data: data, failAt: failAt, style: e.rng.Intn(3), err: fmt.Errorf("disk: %w", errInjected)}
			} else if e.rng.Intn(4) == 0 {
				rd = &faultReader{data: data, failAt: -1, style: 2}
			} else {
				rd = strings.NewReader(string(data))
			}
			got, ret, p := runPolicy(rd, c.Policy.P, c.Policy.K)
			e.sum.Runs++
			rec := func() map[string]interface{} {
				return map[string]interface{}{"case": c, "input": string(data), "failAt": failAt}
			}
			if p != nil {
				e.mismatch("parser-panic", "parser/parser.go", fmt.Sprintf("panic: %v", p), rec())
				continue
			}
			if d := cc.compareEvents(got, c.Cb, texts); d != "" {
				e.mismatch("parser-events", "parser/parser.go", d+fmt.Sprintf(" (input %q)", string(data)), rec())
				continue
			}
			if d := compareRet(ret, c.Ret, texts); d != "" {
				shape := "parser-result"
				if c.Fault.At > 0 {
					shape = "parser-result-after-read-failure"
				}
				e.mismatch(shape, "parser/parser.go", d+fmt.Sprintf(" (input %q, read fails at byte %d)", string(data), failAt), rec())
			}
			if e.sum.Cases%30000 == 11 && v == 0 {
				e.sample(map[string]interface{}{"input": string(data), "policy": c.Policy, "fault": c.Fault, "spec_events": c.Cb, "spec_ret": c.Ret})
			}
		}
		return nil
	})
}

func isInjected(err error) bool { return err != nil && errors.Is(err, errInjected) }
