// Package verifdrv is the in-process conformance driver of the /verif machinery.
// It is compiled into the repository's module tree with -overlay and -tags verif and uses only
// the entry points the repository's own tests use.
package verifdrv

import (
	"bufio"
	"encoding/json"
	"fmt"
	"math/rand"
	"os"
	"runtime/debug"
	"sort"
	"strconv"
	"strings"
	"sync"

	"github.com/urfave/cli/v2"
)

// AppFn returns a fresh cli app (GetApp of package main)
type AppFn func() *cli.App

var getApp AppFn

// Mismatch is one disagreement between the specification's prediction and the real code
type Mismatch struct {
	Shape string      `json:"shape"`
	Site  string      `json:"site,omitempty"`
	What  string      `json:"what"`
	Case  interface{} `json:"case"`
}

// Summary is printed as the last stdout line of every mode
type Summary struct {
	Mode       string                 `json:"mode"`
	Cases      int                    `json:"cases"`
	Runs       int                    `json:"runs"`
	Traces     int                    `json:"traces"`
	Events     int                    `json:"events"`
	Mismatches int                    `json:"mismatches"`
	Nontrivial int                    `json:"nontrivial"`
	Extra      map[string]interface{} `json:"extra,omitempty"`
	Samples    []interface{}          `json:"samples,omitempty"`
}

type env struct {
	seed   int64
	tier   string
	rng    *rand.Rand
	in     string
	out    *bufio.Writer
	outF   *os.File
	args   map[string]interface{}
	sum    Summary
	nOut   int
	maxOut int
	tr     *bufio.Writer // trace events (VERIF_TRACE_OUT)
	trF    *os.File
	mu     sync.Mutex
}

// parallelCases reads every case and runs fn on 12 goroutines, each with its own random source.
// fn must use only the locked helpers of env (mismatch, sample, count).
func (e *env) parallelCases(fn func(idx int, raw json.RawMessage, rng *rand.Rand) error) error {
	var all []json.RawMessage
	if err := e.eachCase(func(raw json.RawMessage) error { all = append(all, raw); return nil }); err != nil {
		return err
	}
	next := make(chan int, len(all))
	for i := range all {
		next <- i
	}
	close(next)
	var wg sync.WaitGroup
	var firstErr error
	for w := 0; w < nWorkers(); w++ {
		wg.Add(1)
		seed := e.seed*1000 + int64(w)
		go func() {
			defer wg.Done()
			rng := rand.New(rand.NewSource(seed))
			for i := range next {
				if err := e.guarded(func() error { return fn(i, all[i], rng) }); err != nil {
					e.mu.Lock()
					if firstErr == nil {
						firstErr = err
					}
					e.mu.Unlock()
					return
				}
			}
		}()
	}
	wg.Wait()
	return firstErr
}

// guarded runs fn; a panic from the code under test becomes a mismatch (see runMode)
func (e *env) guarded(fn func() error) (err error) {
	defer func() {
		if p := recover(); p != nil {
			stack := string(debug.Stack())
			site := panicSite(stack)
			if site == "" || strings.Contains(site, "/internal/verifdrv.") {
				err = fmt.Errorf("panic in the driver: %v\n%s", p, stack)
				return
			}
			e.mismatch("panic-in-code-under-test", site, fmt.Sprintf("the code under test panics: %v at %s", p, site), map[string]interface{}{"stack": stack})
		}
	}()
	return fn()
}

// count adds to the summary counters under the lock
func (e *env) count(cases, runs, nontrivial int) {
	e.mu.Lock()
	e.sum.Cases += cases
	e.sum.Runs += runs
	e.sum.Nontrivial += nontrivial
	e.mu.Unlock()
}

func (e *env) mismatch(shape, site, what string, c interface{}) {
	e.mu.Lock()
	defer e.mu.Unlock()
	e.sum.Mismatches++
	if e.nOut >= e.maxOut || e.out == nil {
		return
	}
	e.nOut++
	b, _ := json.Marshal(Mismatch{shape, site, what, c})
	e.out.Write(b)
	e.out.WriteByte('\n')
}

func (e *env) emit(v interface{}) {
	b, err := json.Marshal(v)
	if err != nil {
		panic(err)
	}
	e.out.Write(b)
	e.out.WriteByte('\n')
}

// emitEv writes one trace event with the "ev" key first (the orchestration recognises trace
// boundaries by the prefix {"ev":"Init")
func (e *env) emitEv(ev string, fields map[string]interface{}) {
	out := e.tr
	if out == nil {
		panic("VERIF_TRACE_OUT not set")
	}
	out.WriteString(`{"ev":"` + ev + `"`)
	keys := make([]string, 0, len(fields))
	for k := range fields {
		keys = append(keys, k)
	}
	sort.Strings(keys)
	for _, k := range keys {
		b, err := json.Marshal(fields[k])
		if err != nil {
			panic(err)
		}
		kb, _ := json.Marshal(k)
		out.WriteByte(',')
		out.Write(kb)
		out.WriteByte(':')
		out.Write(b)
	}
	out.WriteString("}\n")
	e.sum.Events++
}

func (e *env) sample(v interface{}) {
	e.mu.Lock()
	defer e.mu.Unlock()
	if len(e.sum.Samples) < 4 {
		e.sum.Samples = append(e.sum.Samples, v)
	}
}

func (e *env) argInt(name string, def int) int {
	if v, ok := e.args[name]; ok {
		if f, ok := v.(float64); ok {
			return int(f)
		}
	}
	return def
}

func (e *env) argStr(name string, def string) string {
	if v, ok := e.args[name]; ok {
		if s, ok := v.(string); ok {
			return s
		}
	}
	return def
}

// eachCase streams the ndjson file VERIF_IN
func (e *env) eachCase(fn func(raw json.RawMessage) error) error {
	f, err := os.Open(e.in)
	if err != nil {
		return err
	}
	defer f.Close()
	sc := bufio.NewScanner(f)
	sc.Buffer(make([]byte, 1<<20), 64<<20)
	for sc.Scan() {
		line := sc.Bytes()
		if len(line) == 0 {
			continue
		}
		cp := make([]byte, len(line))
		copy(cp, line)
		if err := fn(json.RawMessage(cp)); err != nil {
			return err
		}
	}
	return sc.Err()
}

var modes = map[string]func(e *env) error{}

// nWorkers: how many goroutines run commands of the code under test side by side (VERIF_PAR; default 12).
// The orchestration falls back to 1 when the code under test turns out not to be re-entrant.
func nWorkers() int {
	if n, err := strconv.Atoi(os.Getenv("VERIF_PAR")); err == nil && n >= 1 {
		return n
	}
	return 12
}

// panicSite returns the first frame of the panicking goroutine's stack that is not in the runtime
func panicSite(stack string) string {
	lines := strings.Split(stack, "\n")
	seenPanic := false
	for i := 0; i+1 < len(lines); i++ {
		l := lines[i]
		if strings.HasPrefix(l, "panic(") {
			seenPanic = true
			continue
		}
		if !seenPanic || strings.HasPrefix(l, "\t") || strings.HasPrefix(l, "runtime.") || strings.HasPrefix(l, "runtime/") {
			continue
		}
		return l + " " + strings.TrimSpace(lines[i+1])
	}
	return ""
}

// runMode runs a mode; a panic that originates in the code under test (a direct call of the driver into the
// repository, outside runInProc's own recover) is a disagreement observed on the real code, not a
// failure of the driver: it is recorded as a mismatch.  A panic inside the driver itself stays an error.
func runMode(e *env, fn func(e *env) error) (err error) {
	defer func() {
		if p := recover(); p != nil {
			stack := string(debug.Stack())
			site := panicSite(stack)
			if site == "" || strings.Contains(site, "/internal/verifdrv.") {
				err = fmt.Errorf("panic in the driver: %v\n%s", p, stack)
				return
			}
			e.mismatch("panic-in-code-under-test", site, fmt.Sprintf("the code under test panics: %v at %s", p, site), map[string]interface{}{"stack": stack})
		}
	}()
	return fn(e)
}

// Main dispatches on VERIF_MODE; returns the process exit status (0 unless the driver itself failed)
func Main(mode string, app AppFn) int {
	getApp = app
	e := &env{tier: os.Getenv("VERIF_TIER"), in: os.Getenv("VERIF_IN"), maxOut: 200}
	e.seed, _ = strconv.ParseInt(os.Getenv("VERIF_SEED"), 10, 64)
	if e.seed == 0 {
		e.seed = 1
	}
	e.rng = rand.New(rand.NewSource(e.seed))
	e.sum.Mode = mode
	e.sum.Extra = map[string]interface{}{}
	if a := os.Getenv("VERIF_ARGS"); a != "" {
		if err := json.Unmarshal([]byte(a), &e.args); err != nil {
			fmt.Fprintln(os.Stderr, "bad VERIF_ARGS:", err)
			return 3
		}
	}
	if o := os.Getenv("VERIF_OUT"); o != "" {
		f, err := os.Create(o)
		if err != nil {
			fmt.Fprintln(os.Stderr, err)
			return 3
		}
		e.outF = f
		e.out = bufio.NewWriterSize(f, 1<<20)
	}
	if o := os.Getenv("VERIF_TRACE_OUT"); o != "" {
		f, err := os.Create(o)
		if err != nil {
			fmt.Fprintln(os.Stderr, err)
			return 3
		}
		e.trF = f
		e.tr = bufio.NewWriterSize(f, 1<<20)
	}
	fn, ok := modes[mode]
	if !ok {
		fmt.Fprintln(os.Stderr, "unknown VERIF_MODE", mode)
		return 3
	}
	if err := runMode(e, fn); err != nil {
		fmt.Fprintln(os.Stderr, "driver error:", err)
		return 3
	}
	if e.out != nil {
		e.out.Flush()
		e.outF.Close()
	}
	if e.tr != nil {
		e.tr.Flush()
		e.trF.Close()
	}
	b, _ := json.Marshal(e.sum)
	fmt.Println(string(b))
	return 0
}
