package verifdrv

import (
	"bytes"
	"fmt"
	"strings"

	"github.com/aquilax/hranoprovod-cli/cmd/hranoprovod-cli/v3/internal/csv"
	"github.com/aquilax/hranoprovod-cli/cmd/hranoprovod-cli/v3/internal/register"
	"github.com/aquilax/hranoprovod-cli/cmd/hranoprovod-cli/v3/internal/reporter"
	"github.com/aquilax/hranoprovod-cli/cmd/hranoprovod-cli/v3/internal/utils"
	shared "github.com/aquilax/hranoprovod-cli/v3"
	"github.com/aquilax/hranoprovod-cli/v3/parser"
	"github.com/aquilax/hranoprovod-cli/v3/resolver"
)

func init() {
	modes["reporters-trace"] = reportersTrace
}

// dayTap is a reporter.Reporter that feeds every day to the real per-day reporters, flushes them, and
// hands the text each of them printed for that day to a callback
type dayTap struct {
	reps []reporter.Reporter
	bufs []*bytes.Buffer
	on   func(ln *shared.LogNode, chunks []string) error
}

func (t *dayTap) Process(ln *shared.LogNode) error {
	chunks := make([]string, len(t.reps))
	for i, r := range t.reps {
		t.bufs[i].Reset()
		if err := r.Process(ln); err != nil {
			return err
		}
		if err := r.Flush(); err != nil {
			return err
		}
		chunks[i] = t.bufs[i].String()
	}
	return t.on(ln, chunks)
}
func (t *dayTap) Flush() error { return nil }

func swapID(x, a, b int) int {
	if x == a {
		return b
	}
	if x == b {
		return a
	}
	return x
}

// reportersTrace: random nested books (resolved by the real resolver) and random logs of up to 8 days;
// every Process(day) of the real reporters is observed and recorded, then the period reports
func reportersTrace(e *env) error {
	logs := e.argInt("logs", 100)
	for t := 0; t < logs; t++ {
		var g genBook
		for {
			g = genRandomBook(e.rng)
			g.N = 12
			if absBound(g) < 50000 {
				break
			}
		}
		// make id 1 a basic element that some recipe uses (Trace_Reporters.cfg: Element = 1)
		isRecipe := map[int]bool{}
		for _, r := range g.Book {
			isRecipe[r.Name] = true
		}
		leaf := 0
		for _, r := range g.Book {
			for _, in := range r.Ingr {
				if !isRecipe[in[0]] {
					leaf = in[0]
				}
			}
		}
		if leaf == 0 {
			continue
		}
		for i := range g.Book {
			g.Book[i].Name = swapID(g.Book[i].Name, 1, leaf)
			for j := range g.Book[i].Ingr {
				g.Book[i].Ingr[j][0] = swapID(g.Book[i].Ingr[j][0], 1, leaf)
			}
		}
		names := pickNames(e.rng, mergedPool(), traceNames)
		ids := map[string]int{}
		for i := 1; i <= traceNames; i++ {
			ids[names[i]] = i
		}
		cc := &concretiser{rng: e.rng}
		var bk strings.Builder
		for _, p := range e.rng.Perm(len(g.Book)) {
			r := g.Book[p]
			bk.WriteString(names[r.Name] + ":\n")
			for _, in := range r.Ingr {
				bk.WriteString(cc.entryLine(names[in[0]], fmt.Sprint(in[1])) + "\n")
			}
		}
		db, err := utils.LoadDatabaseFromStream(strings.NewReader(bk.String()), parser.NewDefaultConfig())
		if err == nil {
			db, err = resolver.Resolve(resolver.Config{MaxDepth: 12}, db)
		}
		if err != nil {
			continue // cyclic or too deep: not a subject of this trace
		}
		adb, bad := abstractDB(db, ids, 1)
		if bad != "" {
			e.mismatch("resolver-abstraction", "resolver/resolver.go", bad, map[string]interface{}{"book": bk.String()})
			continue
		}
		// the log
		nd := 1 + e.rng.Intn(8)
		var lg strings.Builder
		var alog []map[string]interface{}
		date := 1
		for d := 0; d < nd; d++ {
			if e.rng.Intn(4) != 0 {
				date += e.rng.Intn(3)
			}
			es := [][]int{}
			fmt.Fprintf(&lg, "2021/07/%02d:\n", date)
			// a small palette per day, so that foods repeat within the day in patterns like a a b c b
			palette := []int{1, g.Book[e.rng.Intn(len(g.Book))].Name, 1 + e.rng.Intn(traceNames), g.Book[e.rng.Intn(len(g.Book))].Name, 1 + e.rng.Intn(traceNames)}
			palette = palette[:2+e.rng.Intn(4)]
			nEntries := e.rng.Intn(9)
			if e.rng.Intn(4) == 0 {
				nEntries = 9 + e.rng.Intn(6) // long days: 9..14 lines that merge to a handful of foods
			}
			first := 0
			for i := nEntries; i > 0; i-- {
				f := palette[e.rng.Intn(len(palette))]
				if i == nEntries {
					first = f
				} else if nEntries > 8 && i == 1 {
					f = first // the first food of a long day comes back at its end
				}
				q := e.rng.Intn(9) - 3
				es = append(es, []int{f, q})
				lg.WriteString(cc.entryLine(names[f], fmt.Sprint(q)) + "\n")
			}
			alog = append(alog, map[string]interface{}{"date": date, "es": es})
		}
		e.sum.Nontrivial++
		e.emitEv("Init", map[string]interface{}{"book": adb, "log": alog, "id": t})
		el := names[1]
		mk := func(c reporter.Config) (reporter.Reporter, *bytes.Buffer) {
			b := &bytes.Buffer{}
			c.Output = b
			c.Color = false
			return register.NewRegReporter(c, db), b
		}
		rc := reporter.NewDefaultConfig()
		regR, regB := mk(rc)
		sc := rc
		sc.SingleElement = el
		sinR, sinB := mk(sc)
		csvB := &bytes.Buffer{}
		csvR := csv.NewCSVReporter(csv.NewCSVConfig(reporter.NewCommonConfig(csvB, false)))
		idOf := func(n string) int { return ids[n] }
		okTrace := true
		tap := &dayTap{reps: []reporter.Reporter{regR, sinR, csvR}, bufs: []*bytes.Buffer{regB, sinB, csvB}}
		tap.on = func(ln *shared.LogNode, chunks []string) error {
			days, err := parseRegister(chunks[0], "default")
			if err != nil || len(days) != 1 {
				return fmt.Errorf("register chunk unparsable: %v %q", err, chunks[0])
			}
			foods := []map[string]interface{}{}
			for _, f := range days[0].Foods {
				ing := [][]int{}
				for _, in := range f.Ingr {
					ing = append(ing, []int{idOf(in.Name), int(in.Val / 1000)})
				}
				foods = append(foods, map[string]interface{}{"name": idOf(f.Name), "qty": int(f.Qty / 1000), "ingr": ing})
			}
			totals := []map[string]interface{}{}
			for _, tt := range days[0].Totals {
				totals = append(totals, map[string]interface{}{"name": idOf(tt.Name), "pos": int(tt.Pos / 1000), "neg": int(tt.Neg / 1000), "sum": int(tt.Sum / 1000)})
			}
			dnum := ln.Time.Day()
			srows, err := parseSingle(chunks[1], 10)
			if err != nil {
				return err
			}
			single := []map[string]interface{}{}
			for _, r := range srows {
				single = append(single, map[string]interface{}{"date": dnum, "pos": int(r.Pos / 1000), "neg": -int(r.Neg / 1000), "sum": int(r.Sum / 1000)})
			}
			recs, err := parseCSVStrict(chunks[2])
			if err != nil {
				return err
			}
			crow := []map[string]interface{}{}
			for _, r := range recs {
				v, _ := parseMilli(r[2])
				crow = append(crow, map[string]interface{}{"date": dnum, "name": idOf(r[1]), "qty": int(v / 1000)})
			}
			e.emitEv("Day", map[string]interface{}{"date": dnum, "reg": map[string]interface{}{"foods": foods, "totals": totals}, "csv": crow, "single": single})
			return nil
		}
		if err := utils.WalkNodesInStream(strings.NewReader(lg.String()), parser.DefaultDateFormat, parser.NewDefaultConfig(), nil, tap); err != nil {
			e.mismatch("report-fails", "cmd/hranoprovod-cli", fmt.Sprintf("walking a well-formed log fails: %v", err), map[string]interface{}{"log": lg.String(), "book": bk.String()})
			okTrace = false
		}
		e.sum.Runs++
		// period reports through the commands
		x := &cmpCtx{e: e, c: nil, w: &world{names: names, uq: 1, ua: 1}, book: bk.String(), log: lg.String()}
		fl := map[string]interface{}{"totals": []interface{}{}, "qty": []interface{}{}, "unres": []int{}, "baltotal": 0}
		if out, ok := x.run("--maxdepth", "12", "report", "totals"); ok {
			rows, _ := parseTotalsReport(out)
			l := []map[string]interface{}{}
			for _, r := range rows {
				l = append(l, map[string]interface{}{"name": idOf(r.Name), "pos": int(r.Pos / 1000), "neg": int(r.Neg / 1000), "sum": int(r.Sum / 1000)})
			}
			fl["totals"] = l
		}
		if out, ok := x.run("report", "quantity"); ok {
			rows, _ := parseNumTabName(out)
			l := []map[string]interface{}{}
			for _, r := range rows {
				l = append(l, map[string]interface{}{"name": idOf(r.Name), "qty": int(r.Val / 1000)})
			}
			fl["qty"] = l
		}
		if out, ok := x.run("--maxdepth", "12", "report", "unresolved"); ok {
			l := []int{}
			if out != "" {
				for _, n := range strings.Split(strings.TrimSuffix(out, "\n"), "\n") {
					l = append(l, idOf(n))
				}
			}
			fl["unres"] = l
		}
		if out, ok := x.run("--maxdepth", "12", "bal", "-s", el); ok {
			if _, tot, err := parseBalance(out); err == nil && tot != nil {
				fl["baltotal"] = int(tot.Val / 1000)
			}
		}
		if okTrace {
			e.emitEv("Flush", fl)
		} else {
			e.emitEv("Aborted", map[string]interface{}{})
		}
		e.sum.Traces++
		if t < 2 {
			e.sample(map[string]interface{}{"book": bk.String(), "log": lg.String()})
		}
	}
	return nil
}
