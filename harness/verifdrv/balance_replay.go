package verifdrv

import (
	"encoding/json"
	"fmt"
	"math/big"
	"math/rand"
	"strings"
)

func init() {
	modes["balance-replay"] = balanceReplay
}

type absBalRow struct {
	Val   int   `json:"val"`
	Lvl   int   `json:"lvl"`
	Label []int `json:"label"`
}
type balCase struct {
	Log   [][]int `json:"log"`
	Amts  []int   `json:"amts"`
	Days  []int   `json:"days"`
	XName []int   `json:"xname"`
	XBook []struct {
		Path []int `json:"path"`
		Amt  int   `json:"amt"`
	} `json:"xbook"`
	Default       []absBalRow `json:"default"`
	Collapse      []absBalRow `json:"collapse"`
	CollapseLast  []absBalRow `json:"collapseLast"`
	SDefault      []absBalRow `json:"sdefault"`
	SCollapse     []absBalRow `json:"scollapse"`
	SCollapseLast []absBalRow `json:"scollapseLast"`
	Total         int         `json:"total"`
}

// segment names: no '/', usual name rules
var segPool = []string{"A", "Fruit", "a", "a b", "apple", "b", "b,c", "dairy", "e\"q\"e", "fruit", "milk 3%", "veg", "x", "z-z", "é", "ягода", "水果"}

func balanceReplay(e *env) error {
	return e.parallelCases(func(idx int, raw json.RawMessage, rng *rand.Rand) error {
		c := &balCase{}
		if err := json.Unmarshal(raw, c); err != nil {
			return err
		}
		e.count(1, 0, 0)
		if len(c.Log) >= 2 {
			e.count(0, 0, 1)
		}
		maxSeg := 2
		for _, p := range c.Log {
			for _, s := range p {
				if s > maxSeg {
					maxSeg = s
				}
			}
		}
		for _, f := range c.XBook {
			for _, s := range f.Path {
				if s > maxSeg {
					maxSeg = s
				}
			}
		}
		segs := pickNames(rng, segPool, maxSeg)
		join := func(p []int) string {
			parts := make([]string, len(p))
			for i, s := range p {
				parts[i] = segs[s]
			}
			return strings.Join(parts, "/")
		}
		w := &world{uq: []float64{1, 0.5, 0.25, 0.125, 0.375}[rng.Intn(5)], ua: 1}
		if len(c.Amts) > 1 && c.Amts[1] == 3 {
			w.uq = 0.125 // the odd-amount configuration: every contribution is an odd multiple of 1/8
		} // ua = 1: a directly logged element and one that comes through the book share one scale
		cc := &concretiser{rng: rng}
		xname := join(c.XName)
		var book strings.Builder
		for _, f := range c.XBook {
			book.WriteString(join(f.Path) + ":\n")
			book.WriteString(cc.entryLine("other", "1") + "\n")
			book.WriteString(cc.entryLine(xname, fmtNum(float64(f.Amt)*w.ua, rng)) + "\n")
		}
		var lg strings.Builder
		cur := 0
		for i, p := range c.Log {
			if c.Days[i] != cur {
				cur = c.Days[i]
				fmt.Fprintf(&lg, "2021/05/%02d:\n", cur)
			}
			lg.WriteString(cc.entryLine(join(p), fmtNum(float64(c.Amts[i])*w.uq, rng)) + "\n") // dyadic units: exact literals
		}
		x := &cmpCtx{e: e, c: c, w: w, book: book.String(), log: lg.String()}
		if idx%1500 == 1 {
			e.sample(map[string]interface{}{"log": x.log, "spec_default_rows": c.Default, "spec_collapse_rows": c.Collapse})
		}
		prefixFree := true
		for i, p := range c.Log {
			for j, q := range c.Log {
				if i != j && len(p) < len(q) && strings.HasPrefix(join(q)+"/", join(p)+"/") && join(p) != join(q) {
					prefixFree = false
				}
			}
		}
		check := func(tag string, args []string, want []absBalRow, single bool) {
			out, ok := x.run(args...)
			if !ok {
				return
			}
			rows, tot, err := parseBalance(out)
			if err != nil {
				x.bad("balance-unparsable", "cmd/hranoprovod-cli/internal/balance", fmt.Sprintf("%s: %v", tag, err))
				return
			}
			scale := func(v int) int64 {
				if single {
					return w.milliC(v)
				}
				return w.milliQ(v)
			}
			kind := byte('Q')
			if single {
				kind = 'C'
			}
			// what the entries add up to (all foods), resp. the specification's grand total (single element)
			sumModel := c.Total
			if !single {
				sumModel = 0
				for _, a := range c.Amts {
					sumModel += a
				}
			}
			// outside the prefix-free clause the statement does not fix how a collapsed chain whose nodes carry
			// entries of their own is labelled or valued: only "no branch is dropped" is compared there
			if !prefixFree && strings.Contains(tag, "collapse") {
				var stack []string
				var shown []string
				for _, r := range rows {
					if r.Level > len(stack) {
						x.bad("balance-rows-"+tag, "cmd/hranoprovod-cli/internal/balance", fmt.Sprintf("bal %s: row %+v is indented deeper than its predecessor allows", tag, r))
						return
					}
					full := r.Label
					if r.Level > 0 {
						full = stack[r.Level-1] + "/" + r.Label
					}
					stack = append(stack[:r.Level], full)
					shown = append(shown, full)
				}
				// conservation holds in every display mode: the top-level rows add up to everything that was logged
				// (the printed figures are rounded: half a unit of slack per row)
				var top int64
				ntop := 0
				for _, r := range rows {
					if r.Level == 0 {
						top += r.Val
						ntop++
					}
				}
				wantTop := new(big.Rat).Mul(big.NewRat(int64(sumModel), 1), w.unitRat(kind))
				diff := new(big.Rat).Sub(big.NewRat(top, 1000), wantTop)
				if diff.Abs(diff).Cmp(big.NewRat(int64(5*ntop+1), 1000)) > 0 {
					x.bad("balance-not-conserved", "cmd/hranoprovod-cli/internal/balance", fmt.Sprintf("bal %s: the top-level rows %+v add up to %d/1000, the logged quantities to %s (log %q)", tag, rows, top, wantTop.FloatString(3), x.log))
					return
				}
				if single && (tot == nil || !w.near(tot.Val, c.Total, 'C', 2)) {
					x.bad("balance-single-total", "cmd/hranoprovod-cli/internal/balance", fmt.Sprintf("bal %s grand total %+v, specification predicts %d x unit", tag, tot, c.Total))
					return
				}
				for i, p := range c.Log {
					if single {
						break
					}
					name := join(p)
					covered := false
					for _, sp := range shown {
						if sp == name || strings.HasPrefix(sp, name+"/") {
							covered = true
						}
					}
					if !covered {
						x.bad("balance-branch-dropped", "cmd/hranoprovod-cli/internal/balance", fmt.Sprintf("bal %s shows %v: the logged food %q (entry %d) is under no row (log %q)", tag, shown, name, i, x.log))
						return
					}
				}
				return
			}
			okr := len(rows) == len(want)
			for i := 0; okr && i < len(rows); i++ {
				okr = w.near(rows[i].Val, want[i].Val, kind, 2) && rows[i].Level == want[i].Lvl && rows[i].Label == join(want[i].Label)
			}
			if !okr {
				var ws []string
				for _, r := range want {
					ws = append(ws, fmt.Sprintf("%d|%d|%s", scale(r.Val), r.Lvl, join(r.Label)))
				}
				shape := "balance-rows-" + tag
				x.bad(shape, "cmd/hranoprovod-cli/internal/balance", fmt.Sprintf("bal %s prints rows %+v, specification predicts %v (log %q)", tag, rows, ws, x.log))
				return
			}
			if single {
				if tot == nil || !w.near(tot.Val, c.Total, 'C', 2) || tot.Label != xname {
					x.bad("balance-single-total", "cmd/hranoprovod-cli/internal/balance", fmt.Sprintf("bal %s grand total %+v, specification predicts %d/1000 %q", tag, tot, w.milliC(c.Total), xname))
				}
			} else if tot != nil {
				x.bad("balance-rows-"+tag, "cmd/hranoprovod-cli/internal/balance", "a grand total line without --single-element")
			}
		}
		check("default", []string{"bal"}, c.Default, false)
		check("collapse", []string{"bal", "-c"}, c.Collapse, false)
		check("collapse-last", []string{"bal", "--collapse-last"}, c.CollapseLast, false)
		check("single", []string{"bal", "-s", xname}, c.SDefault, true)
		check("single-collapse", []string{"bal", "-s", xname, "-c"}, c.SCollapse, true)
		check("single-collapse-last", []string{"bal", "--collapse-last", "-s", xname}, c.SCollapseLast, true)
		return nil
	})
}
