package verifdrv

import (
	"encoding/json"
	"fmt"
	"math/rand"
	"os"
	"path/filepath"
	"sort"
	"strings"
	"sync"
	"time"
)

func init() {
	modes["walk-replay"] = walkReplay
	modes["walk-layouts"] = walkReplay
}

type boundSpec struct {
	K string `json:"k"`
	D int    `json:"d"`
}
type walkCase struct {
	Log      []int     `json:"log"`
	Kind     string    `json:"kind"`
	BG       boundSpec `json:"bG"`
	EG       boundSpec `json:"eG"`
	BS       boundSpec `json:"bS"`
	ES       boundSpec `json:"eS"`
	Arg      boundSpec `json:"arg"`
	Today    int       `json:"today"`
	Zone     int       `json:"zone"`
	Selected []int     `json:"selected"`
}

var walkEpoch = time.Date(2020, 12, 27, 0, 0, 0, 0, time.UTC) // day 1 = 2020/12/28: the windows straddle the end of a leap year

// in the DST phase day 35 (= --today of the positions family) is 2021-03-28: New York changed its clocks on
// 03-14 (between last30 and today), Sofia changes them on that very day
var dstEpoch = time.Date(2021, 2, 21, 0, 0, 0, 0, time.UTC)
var curEpoch = walkEpoch

func dayStr(d int, layout string) string { return curEpoch.AddDate(0, 0, d).Format(layout) }

func (b boundSpec) str(layout string) string {
	if b.K == "date" {
		return dayStr(b.D, layout)
	}
	return b.K
}

var tzNames = map[int]string{-720: "Etc/GMT+12", -480: "Etc/GMT+8", 0: "UTC", 540: "Asia/Tokyo", 840: "Pacific/Kiritimati"}

// walkLog renders the log: heading i carries the unique food f<i> with quantity i
func walkLog(days []int, keep []int, layout string) string {
	var sb strings.Builder
	k := map[int]bool{}
	for _, i := range keep {
		k[i] = true
	}
	for i, d := range days {
		if keep != nil && !k[i+1] {
			continue
		}
		fmt.Fprintf(&sb, "%s:\n  f%02d: %d\n", dayStr(d, layout), i+1, i+1)
	}
	return sb.String()
}

// the indices of the headings a report shows, recovered from the food names f<i> it mentions
func shownIndices(out string) []int {
	var idx []int
	for _, line := range strings.Split(out, "\n") {
		for p := 0; p+3 <= len(line); p++ {
			if line[p] == 'f' && line[p+1] >= '0' && line[p+1] <= '9' && line[p+2] >= '0' && line[p+2] <= '9' && (p == 0 || !isAlnum(line[p-1])) {
				v := int(line[p+1]-'0')*10 + int(line[p+2]-'0')
				if len(idx) == 0 || idx[len(idx)-1] != v { // a register day shows its food on three rows
					idx = append(idx, v)
				}
				break
			}
		}
	}
	return idx
}

func isAlnum(c byte) bool {
	return c >= '0' && c <= '9' || c >= 'a' && c <= 'z' || c >= 'A' && c <= 'Z'
}

func sameInts(a, b []int) bool {
	if len(a) != len(b) {
		return false
	}
	for i := range a {
		if a[i] != b[i] {
			return false
		}
	}
	return true
}

type walkCmd struct {
	name   string
	args   []string
	hasSub bool // the sub-command has its own -b / -e
	sorted bool // rows are sorted by name / value instead of file order
}

var walkCmds = []walkCmd{
	{"csv log", []string{"csv", "log"}, true, false},
	{"reg", []string{"reg"}, true, false},
	{"print", []string{"print"}, true, false},
	{"bal", []string{"bal"}, true, true},
	{"report quantity", []string{"report", "quantity"}, false, true},
	{"report totals", []string{"report", "totals"}, false, true},
	{"report unresolved", []string{"report", "unresolved"}, false, true},
}

// walkReplay: every terminal state of Walk.tla (log, bounds at their positions, --today, zone -> selected
// headings) on the real commands, in-process with time.Local set to the zone, and (a sample) on the
// real binary under TZ.  Also "equals the same file with the other days deleted and no period".
func walkReplay(e *env) error {
	var all []walkCase
	if err := e.eachCase(func(raw json.RawMessage) error {
		var c walkCase
		if err := json.Unmarshal(raw, &c); err != nil {
			return err
		}
		all = append(all, c)
		return nil
	}); err != nil {
		return err
	}
	binEvery := e.argInt("binary_every", 0)
	layouts := []string{"2006/01/02"}
	if e.sum.Mode == "walk-layouts" {
		layouts = []string{"2006-01-02", "02.01.2006", "02 Jan 2006", "06/01/02", "2006/02/01"} // the last one: year/day/month, which the default layout also parses (differently) for days <= 12
	}
	byZone := map[int][]int{}
	stride := e.argInt("stride", 1)
	replayed := 0
	for i, c := range all {
		if stride > 1 && c.Kind != "summary" && (i+int(e.seed))%stride != 0 {
			continue // quick tier (summary cases are few: all replayed): a seeded 1-in-stride selection of the enumerated family
		}
		replayed++
		byZone[c.Zone] = append(byZone[c.Zone], i)
	}
	e.sum.Extra["replayed_of_enumerated"] = fmt.Sprintf("%d of %d", replayed, len(all))
	zones := make([]int, 0, len(byZone))
	for z := range byZone {
		zones = append(zones, z)
	}
	sort.Ints(zones)
	saved := time.Local
	defer func() { time.Local = saved }()
	scratch := os.Getenv("VERIF_SCRATCH")
	for _, layout := range layouts {
		for _, z := range zones {
			time.Local = time.FixedZone(fmt.Sprintf("Z%+d", z), z*60)
			idxs := byZone[z]
			next := make(chan int, len(idxs))
			for _, i := range idxs {
				next <- i
			}
			close(next)
			var wg sync.WaitGroup
			for w := 0; w < nWorkers(); w++ {
				wg.Add(1)
				go func(w int) {
					defer wg.Done()
					rng := rand.New(rand.NewSource(e.seed*977 + int64(w)))
					dir := filepath.Join(scratch, fmt.Sprintf("walk-w%d", w))
					os.MkdirAll(dir, 0o755)
					for i := range next {
						c := all[i]
						useBin := binEvery > 0 && i%binEvery == 0 && os.Getenv("VERIF_BIN") != "" && tzNames[c.Zone] != ""
						walkOne(e, &c, layout, rng, useBin, dir)
						if i%30000 == 7 {
							e.sample(c)
						}
					}
				}(w)
			}
			wg.Wait()
		}
	}
	// ---- zones with daylight saving time: the selection must not depend on the zone at all (period kind) ----
	if e.argInt("dst", 0) == 1 {
		curEpoch = dstEpoch
		defer func() { curEpoch = walkEpoch }()
		for _, zn := range []string{"America/New_York", "Europe/Sofia", "Australia/Lord_Howe"} {
			loc, err := time.LoadLocation(zn)
			if err != nil {
				e.sum.Extra["dst_zone_unavailable"] = zn
				continue
			}
			time.Local = loc
			var idxs []int
			for i, c := range all {
				kw := func(b boundSpec) bool { return b.K != "none" && b.K != "date" }
				if c.Kind == "period" && (kw(c.BG) || kw(c.EG) || kw(c.BS) || kw(c.ES)) && (i+int(e.seed))%(stride*4) == 0 {
					idxs = append(idxs, i)
				}
			}
			next := make(chan int, len(idxs))
			for _, i := range idxs {
				next <- i
			}
			close(next)
			var wg sync.WaitGroup
			for w := 0; w < nWorkers(); w++ {
				wg.Add(1)
				go func(w int) {
					defer wg.Done()
					rng := rand.New(rand.NewSource(e.seed*31 + int64(w)))
					for i := range next {
						c := all[i]
						walkOne(e, &c, "2006/01/02", rng, false, "")
					}
				}(w)
			}
			wg.Wait()
			e.sum.Extra["dst_cases_"+zn] = len(idxs)
		}
	}
	e.sum.Cases = len(all)
	return nil
}

func walkOne(e *env, c *walkCase, layout string, rng *rand.Rand, useBin bool, dir string) {
	e.count(1, 0, 0)
	if len(c.Selected) != len(c.Log) && len(c.Selected) != 0 {
		e.count(0, 0, 1)
	}
	log := walkLog(c.Log, nil, layout)
	only := walkLog(c.Log, append([]int{}, c.Selected...), layout)
	if len(c.Selected) == 0 {
		only = walkLog(c.Log, []int{}, layout)
	}
	files := map[string]fileSrc{"log.yaml": strSrc(log), "food.yaml": strSrc("")}
	filesOnly := map[string]fileSrc{"log.yaml": strSrc(only), "food.yaml": strSrc("")}
	rec := func() map[string]interface{} { return map[string]interface{}{"case": c, "log": log} }
	global := []string{"--no-color", "--no-database", "--today", dayStr(c.Today, layout)}
	if layout != "2006/01/02" {
		global = append([]string{"--date-format", layout}, global...)
	}
	if c.Kind == "summary" {
		args := append(append([]string{}, global...), "summary", c.Arg.str(layout))
		out := &failWriter{limit: -1}
		res := runInProc(args, files, out)
		e.count(0, 1, 0)
		if res.Err != nil || res.Panicked != nil {
			e.mismatch("period-command-fails", "cmd/hranoprovod-cli/internal/summary", fmt.Sprintf("%v fails: %v %v", args, res.Err, res.Panicked), rec())
			return
		}
		got := shownIndices(out.buf.String())
		if !sameInts(got, c.Selected) {
			e.mismatch("summary-selects-wrong-days", "cmd/hranoprovod-cli/internal/summary", fmt.Sprintf("%v (zone %+d min) shows headings %v, specification predicts %v (log days %v)", args, c.Zone, got, c.Selected, c.Log), rec())
		}
		if useBin {
			walkBinary(e, c, args, log, dir, c.Selected, false)
		}
		return
	}
	for _, cmd := range walkCmds {
		if !cmd.hasSub && (c.BS.K != "none" || c.ES.K != "none") {
			continue
		}
		args := append([]string{}, global...)
		if c.BG.K != "none" {
			args = append(args, "-b", c.BG.str(layout))
		}
		if c.EG.K != "none" {
			args = append(args, "-e", c.EG.str(layout))
		}
		args = append(args, cmd.args...)
		if c.BS.K != "none" {
			args = append(args, "-b", c.BS.str(layout))
		}
		if c.ES.K != "none" {
			args = append(args, "-e", c.ES.str(layout))
		}
		out := &failWriter{limit: -1}
		res := runInProc(args, files, out)
		e.count(0, 1, 0)
		if res.Err != nil || res.Panicked != nil {
			e.mismatch("period-command-fails", "cmd/hranoprovod-cli", fmt.Sprintf("%v fails: %v %v", args, res.Err, res.Panicked), rec())
			continue
		}
		got := shownIndices(out.buf.String())
		want := append([]int{}, c.Selected...)
		if cmd.sorted {
			sort.Ints(got)
		}
		if !sameInts(got, want) {
			e.mismatch("period-selects-wrong-days", "filter/filter.go", fmt.Sprintf("%v (zone %+d min) shows headings %v, specification predicts %v (log days %v)", args, c.Zone, got, want, c.Log), rec())
			continue
		}
		// the same file with the other days deleted and no period gives the same report, byte for byte
		plain := append(append([]string{}, global...), cmd.args...)
		out2 := &failWriter{limit: -1}
		res2 := runInProc(plain, filesOnly, out2)
		e.count(0, 1, 0)
		if res2.Err != nil || out2.buf.String() != out.buf.String() {
			e.mismatch("period-differs-from-deleting-other-days", "filter/filter.go", fmt.Sprintf("%v prints %q; the file with the other days deleted prints %q (err %v)", args, out.buf.String(), out2.buf.String(), res2.Err), rec())
		}
		if useBin && rng.Intn(3) == 0 {
			walkBinary(e, c, args, log, dir, want, cmd.sorted)
		}
	}
}

func walkBinary(e *env, c *walkCase, args []string, log, dir string, want []int, sorted bool) {
	writeFile(filepath.Join(dir, "log.yaml"), log)
	r := runBinary(dir, []string{"TZ=" + tzNames[c.Zone]}, nil, args...)
	e.count(0, 1, 0)
	// runBinary puts TZ=UTC first; the later TZ entry wins in os/exec
	got := shownIndices(r.Stdout)
	if sorted {
		sort.Ints(got)
	}
	if r.Exit != 0 || !sameInts(got, want) {
		e.mismatch("period-selects-wrong-days-binary", "filter/filter.go", fmt.Sprintf("binary %v under TZ=%s exits %d and shows headings %v, specification predicts %v", args, tzNames[c.Zone], r.Exit, got, want), map[string]interface{}{"case": c, "log": log, "stderr": r.Stderr})
	}
}
