package verifdrv

import (
	"fmt"
	"regexp"
	"strings"
)

// ---- exact decimal parsing: printed figures are compared as integers of 1/1000 ----

// parseMilli parses a printed decimal ("-12.50", "3.125", "0") exactly into thousandths.
func parseMilli(s string) (int64, bool) {
	s = strings.TrimSpace(s)
	if s == "" {
		return 0, false
	}
	neg := false
	if s[0] == '-' {
		neg = true
		s = s[1:]
	} else if s[0] == '+' {
		s = s[1:]
	}
	ip, fp := s, ""
	if i := strings.IndexByte(s, '.'); i >= 0 {
		ip, fp = s[:i], s[i+1:]
	}
	if ip == "" && fp == "" {
		return 0, false
	}
	if len(fp) > 3 {
		return 0, false
	}
	for len(fp) < 3 {
		fp += "0"
	}
	var v int64
	for _, c := range ip + fp {
		if c < '0' || c > '9' {
			return 0, false
		}
		v = v*10 + int64(c-'0')
		if v > 1<<52 {
			return 0, false
		}
	}
	if neg {
		v = -v
	}
	return v, true
}

var ansiRe = regexp.MustCompile("\x1b\\[[0-9;]*m")

func stripAnsi(s string) string { return ansiRe.ReplaceAllString(s, "") }

var numTail = regexp.MustCompile(`^(.*?)\s*(-?\d+\.\d{2})$`)

// cutNum removes the last printed number (two decimals) from the end of s
func cutNum(s string) (rest string, milli int64, ok bool) {
	m := numTail.FindStringSubmatch(s)
	if m == nil {
		return s, 0, false
	}
	v, ok := parseMilli(m[2])
	return m[1], v, ok
}

// ---- register (default template, left-aligned template, old reporter) and summary ----

type regIngr struct {
	Name string
	Val  int64
}
type regFood struct {
	Name string
	Qty  int64
	Ingr []regIngr
}
type regTotal struct {
	Name          string
	Pos, Neg, Sum int64
}
type regDay struct {
	Date   string
	Foods  []regFood
	Totals []regTotal
	Header bool // a TOTAL header line was printed
}

// parseRegister parses the output of `reg` in the given template ("default", "old", "left")
func parseRegister(out, tmpl string) ([]regDay, error) {
	var days []regDay
	var cur *regDay
	inTotals := false
	lines := strings.Split(strings.TrimSuffix(out, "\n"), "\n")
	if out == "" {
		return nil, nil
	}
	for ln, raw := range lines {
		line := stripAnsi(raw)
		fail := func(msg string) error { return fmt.Errorf("line %d %q: %s", ln+1, raw, msg) }
		if tmpl == "left" {
			switch {
			case strings.HasPrefix(line, "----") && strings.Contains(line, "TOTAL"):
				if cur == nil {
					return nil, fail("TOTAL before a date")
				}
				inTotals, cur.Header = true, true
			case strings.HasPrefix(line, "  "):
				if cur == nil {
					return nil, fail("row before a date")
				}
				body := strings.TrimLeft(line, " ")
				if inTotals {
					// pos neg = sum  name
					f := strings.SplitN(body, " = ", 2)
					if len(f) != 2 {
						return nil, fail("not a totals row")
					}
					pn := strings.Fields(f[0])
					if len(pn) != 2 {
						return nil, fail("not a totals row")
					}
					p, ok1 := parseMilli(pn[0])
					n, ok2 := parseMilli(pn[1])
					rest := strings.TrimLeft(f[1], " ")
					i := strings.Index(rest, "  ")
					if !ok1 || !ok2 || i < 0 {
						return nil, fail("not a totals row")
					}
					s, ok3 := parseMilli(rest[:i])
					if !ok3 {
						return nil, fail("bad sum")
					}
					cur.Totals = append(cur.Totals, regTotal{rest[i+2:], p, n, s})
					continue
				}
				i := strings.Index(body, " ")
				if i < 0 {
					return nil, fail("no name")
				}
				v, ok := parseMilli(body[:i])
				if !ok {
					return nil, fail("bad number")
				}
				rest := body[i:]
				switch {
				case strings.HasPrefix(rest, "    "):
					if len(cur.Foods) == 0 {
						return nil, fail("ingredient before a food")
					}
					f := &cur.Foods[len(cur.Foods)-1]
					f.Ingr = append(f.Ingr, regIngr{rest[4:], v})
				case strings.HasPrefix(rest, "  "):
					cur.Foods = append(cur.Foods, regFood{Name: rest[2:], Qty: v})
				default:
					return nil, fail("unknown row")
				}
			default:
				days = append(days, regDay{Date: line})
				cur = &days[len(days)-1]
				inTotals = false
			}
			continue
		}
		switch {
		case strings.HasPrefix(line, "\t-- TOTAL"):
			if cur == nil {
				return nil, fail("TOTAL before a date")
			}
			inTotals, cur.Header = true, true
		case strings.HasPrefix(line, "\t\t"):
			if cur == nil {
				return nil, fail("row before a date")
			}
			body := line[2:]
			if inTotals {
				rest, s, ok := cutNum(body)
				if !ok || !strings.HasSuffix(rest, " =") {
					return nil, fail("not a totals row")
				}
				rest, n, ok2 := cutNum(strings.TrimSuffix(rest, " ="))
				rest, p, ok3 := cutNum(rest)
				if !ok2 || !ok3 {
					return nil, fail("not a totals row")
				}
				cur.Totals = append(cur.Totals, regTotal{strings.TrimLeft(rest, " "), p, n, s})
				continue
			}
			rest, v, ok := cutNum(body)
			if !ok || len(cur.Foods) == 0 {
				return nil, fail("not an ingredient row")
			}
			f := &cur.Foods[len(cur.Foods)-1]
			f.Ingr = append(f.Ingr, regIngr{strings.TrimLeft(rest, " "), v})
		case strings.HasPrefix(line, "\t"):
			if cur == nil {
				return nil, fail("row before a date")
			}
			rest, v, ok := cutNum(line[1:])
			if !ok || !strings.HasSuffix(rest, " :") {
				return nil, fail("not a food row")
			}
			cur.Foods = append(cur.Foods, regFood{Name: strings.TrimRight(strings.TrimSuffix(rest, " :"), " "), Qty: v})
		default:
			days = append(days, regDay{Date: line})
			cur = &days[len(days)-1]
			inTotals = false
		}
	}
	return days, nil
}

// parseSummary parses `summary DATE`: per day "date :", totals (positive register) "num : name",
// "------------", foods "num : name"
type sumDay struct {
	Date   string
	Totals []regIngr
	Foods  []regIngr
}

func parseSummary(out string) ([]sumDay, error) {
	if out == "" {
		return nil, nil
	}
	var days []sumDay
	var cur *sumDay
	below := false
	for ln, raw := range strings.Split(strings.TrimSuffix(out, "\n"), "\n") {
		line := stripAnsi(raw)
		switch {
		case line == "------------":
			if cur == nil {
				return nil, fmt.Errorf("line %d: separator before a date", ln+1)
			}
			below = true
		case strings.HasSuffix(line, " :") && !strings.HasPrefix(line, " "):
			days = append(days, sumDay{Date: strings.TrimSuffix(line, " :")})
			cur = &days[len(days)-1]
			below = false
		default:
			i := strings.Index(line, " : ")
			if cur == nil || i < 0 {
				return nil, fmt.Errorf("line %d %q: not a summary row", ln+1, raw)
			}
			v, ok := parseMilli(line[:i])
			if !ok {
				return nil, fmt.Errorf("line %d %q: bad number", ln+1, raw)
			}
			r := regIngr{line[i+3:], v}
			if below {
				cur.Foods = append(cur.Foods, r)
			} else {
				cur.Totals = append(cur.Totals, r)
			}
		}
	}
	return days, nil
}

// ---- strict, independent RFC 4180 reader (C13) ----
//
// record = field *(COMMA field) ; file = record *(LF record) [LF]   (encoding/csv writes LF)
// field  = escaped / non-escaped ; escaped = DQUOTE *(TEXTDATA / COMMA / CR / LF / 2DQUOTE) DQUOTE
// A non-escaped field must not contain a quote, a comma, CR or LF; nothing may follow a closing quote
// but a comma or a line break.
func parseCSVStrict(s string) ([][]string, error) {
	var recs [][]string
	var rec []string
	i := 0
	n := len(s)
	for i < n {
		var f strings.Builder
		if s[i] == '"' {
			i++
			for {
				if i >= n {
					return nil, fmt.Errorf("unterminated quoted field in record %d", len(recs)+1)
				}
				if s[i] == '"' {
					if i+1 < n && s[i+1] == '"' {
						f.WriteByte('"')
						i += 2
						continue
					}
					i++
					break
				}
				f.WriteByte(s[i])
				i++
			}
			if i < n && s[i] != ',' && s[i] != '\n' && !(s[i] == '\r' && i+1 < n && s[i+1] == '\n') {
				return nil, fmt.Errorf("garbage after closing quote in record %d", len(recs)+1)
			}
		} else {
			for i < n && s[i] != ',' && s[i] != '\n' {
				if s[i] == '"' {
					return nil, fmt.Errorf("bare quote in unquoted field in record %d", len(recs)+1)
				}
				if s[i] == '\r' {
					if i+1 < n && s[i+1] == '\n' {
						break
					}
					return nil, fmt.Errorf("bare CR in unquoted field in record %d", len(recs)+1)
				}
				f.WriteByte(s[i])
				i++
			}
		}
		rec = append(rec, f.String())
		if i < n && s[i] == ',' {
			i++
			if i == n {
				rec = append(rec, "")
			}
			continue
		}
		if i < n && s[i] == '\r' {
			i++
		}
		if i < n && s[i] == '\n' {
			i++
		}
		recs = append(recs, rec)
		rec = nil
	}
	if rec != nil {
		recs = append(recs, rec)
	}
	return recs, nil
}

// ---- small tabular reports ----

// "<num>\t<name>" rows (report quantity, report element-total, reg -s X -g after trimming)
func parseNumTabName(out string) ([]regIngr, error) {
	var rows []regIngr
	if out == "" {
		return nil, nil
	}
	for ln, line := range strings.Split(strings.TrimSuffix(out, "\n"), "\n") {
		i := strings.IndexByte(line, '\t')
		if i < 0 {
			return nil, fmt.Errorf("line %d %q: no tab", ln+1, line)
		}
		v, ok := parseMilli(line[:i])
		if !ok {
			return nil, fmt.Errorf("line %d %q: bad number", ln+1, line)
		}
		rows = append(rows, regIngr{line[i+1:], v})
	}
	return rows, nil
}

// report totals: header line, then "%12.2f  %12.2f  %12.2f  %s"
func parseTotalsReport(out string) ([]regTotal, error) {
	if out == "" {
		return nil, nil
	}
	lines := strings.Split(strings.TrimSuffix(out, "\n"), "\n")
	if len(lines) == 0 || !strings.Contains(lines[0], "positive") || !strings.Contains(lines[0], "element") {
		return nil, fmt.Errorf("missing header: %q", lines[0])
	}
	var rows []regTotal
	for ln, line := range lines[1:] {
		// three right-aligned numbers separated by two blanks, then two blanks and the name
		rest := line
		var nums [3]int64
		for k := 0; k < 3; k++ {
			rest = strings.TrimLeft(rest, " ")
			i := strings.IndexByte(rest, ' ')
			if i < 0 {
				return nil, fmt.Errorf("line %d %q: not a totals row", ln+2, line)
			}
			v, ok := parseMilli(rest[:i])
			if !ok {
				return nil, fmt.Errorf("line %d %q: bad number", ln+2, line)
			}
			nums[k] = v
			rest = rest[i:]
		}
		if !strings.HasPrefix(rest, "  ") {
			return nil, fmt.Errorf("line %d %q: no name", ln+2, line)
		}
		rows = append(rows, regTotal{rest[2:], nums[0], nums[1], nums[2]})
	}
	return rows, nil
}

// reg -s X: "%s %20s %10.2f %10.2f =%10.2f": date, name, pos, -neg, sum
type singleRow struct {
	Date          string
	Name          string
	Pos, Neg, Sum int64
}

func parseSingle(out string, dateLen int) ([]singleRow, error) {
	var rows []singleRow
	if out == "" {
		return nil, nil
	}
	for ln, line := range strings.Split(strings.TrimSuffix(out, "\n"), "\n") {
		rest, s, ok := cutNum(line)
		if !ok || !strings.HasSuffix(rest, " =") {
			return nil, fmt.Errorf("line %d %q: not a single-element row", ln+1, line)
		}
		rest, n, ok2 := cutNum(strings.TrimSuffix(rest, " ="))
		rest, p, ok3 := cutNum(rest)
		if !ok2 || !ok3 || len(rest) < dateLen+1 {
			return nil, fmt.Errorf("line %d %q: not a single-element row", ln+1, line)
		}
		rows = append(rows, singleRow{rest[:dateLen], strings.TrimLeft(rest[dateLen+1:], " "), p, n, s})
	}
	return rows, nil
}

// bal: "%10.2f | <indent><label>" rows; bal -s adds "-----------|" and the grand total row
type balRow struct {
	Val   int64
	Level int
	Label string
}

func parseBalance(out string) (rows []balRow, total *balRow, err error) {
	if out == "" {
		return nil, nil, nil
	}
	sep := false
	for ln, line := range strings.Split(strings.TrimSuffix(out, "\n"), "\n") {
		if strings.HasSuffix(line, "|") && strings.Trim(line, "-") == "|" && len(line) > 1 { // the separator above the grand total: dashes and a bar, whatever its width
			sep = true
			continue
		}
		i := strings.Index(line, " | ")
		if i < 0 {
			return nil, nil, fmt.Errorf("line %d %q: not a balance row", ln+1, line)
		}
		v, ok := parseMilli(line[:i])
		if !ok {
			return nil, nil, fmt.Errorf("line %d %q: bad number", ln+1, line)
		}
		body := line[i+3:]
		lvl := 0
		for strings.HasPrefix(body, "  ") {
			lvl++
			body = body[2:]
		}
		r := balRow{v, lvl, body}
		if sep {
			if total != nil {
				return nil, nil, fmt.Errorf("line %d: two grand totals", ln+1)
			}
			t := r
			total = &t
		} else {
			rows = append(rows, r)
		}
	}
	return rows, total, nil
}
