package verifdrv

import (
	"encoding/json"
	"fmt"
	"math/big"
	"math/rand"
	"strconv"
	"strings"
	"time"
)

func init() {
	modes["reporters-replay"] = reportersReplay
}

// ---- Reporters.tla terminal states ----

type absDay struct {
	Date int     `json:"date"`
	Es   [][]int `json:"es"`
}
type absTotal struct {
	Name int `json:"name"`
	Pos  int `json:"pos"`
	Neg  int `json:"neg"`
	Sum  int `json:"sum"`
}
type absRegFood struct {
	Name int     `json:"name"`
	Qty  int     `json:"qty"`
	Ingr [][]int `json:"ingr"`
}
type absRegDay struct {
	Date   int          `json:"date"`
	Foods  []absRegFood `json:"foods"`
	Totals []absTotal   `json:"totals"`
}
type absQty struct {
	Name int `json:"name"`
	Qty  int `json:"qty"`
	Date int `json:"date"`
	Sum  int `json:"sum"`
}
type absSingle struct {
	Date int `json:"date"`
	Pos  int `json:"pos"`
	Neg  int `json:"neg"`
	Sum  int `json:"sum"`
}
type repCase struct {
	Book []struct {
		Name int     `json:"name"`
		Els  [][]int `json:"els"`
	} `json:"book"`
	Element  int         `json:"element"`
	Log      []absDay    `json:"log"`
	Reg      []absRegDay `json:"reg"`
	CsvLog   []absQty    `json:"csvlog"`
	Single   []absSingle `json:"single"`
	Totals   []absTotal  `json:"totals"`
	Qty      []absQty    `json:"qty"`
	QtyDesc  []absQty    `json:"qtydesc"`
	ByFood   []absQty    `json:"byfood"`
	Unres    []int       `json:"unres"`
	BalTotal int         `json:"baltotal"`
}

// world is one concretisation of the abstract universe: names, units, dates
type world struct {
	names  []string // by id
	uq, ua float64  // unit of quantities / of book amounts
	uqS    string   // the quantity unit as an exact decimal ("" = uq is dyadic and exact as a float)
	dates  []string // by abstract date
	iso    []string
}

// unit of a figure: 'Q' a logged quantity, 'C' a contribution (quantity x amount), 'A' a book amount
func (w *world) unitRat(kind byte) *big.Rat {
	q := new(big.Rat).SetFloat64(w.uq)
	if w.uqS != "" {
		q, _ = new(big.Rat).SetString(w.uqS)
	}
	a := new(big.Rat).SetFloat64(w.ua)
	switch kind {
	case 'Q':
		return q
	case 'A':
		return a
	}
	return q.Mul(q, a)
}

// near: the printed figure (in thousandths) is within half a unit of its last printed digit of the exact
// value model x unit (plus 1e-6 units for the float64 representation).  For dyadic units with at most
// `dec` decimals this is plain equality.
func (w *world) near(printedMilli int64, model int, kind byte, dec int) bool {
	exact := new(big.Rat).Mul(big.NewRat(int64(model), 1), w.unitRat(kind))
	return withinHalfUnit(big.NewRat(printedMilli, 1000).FloatString(3), exact, dec)
}

// lit: the literal written into a file for model x unit (exact: the units have at most 3 decimals)
func (w *world) lit(model int, kind byte, rng *rand.Rand) string {
	if w.uqS == "" || kind == 'A' {
		u := w.uq
		if kind == 'A' {
			u = w.ua
		}
		return fmtNum(float64(model)*u, rng)
	}
	exact := new(big.Rat).Mul(big.NewRat(int64(model), 1), w.unitRat(kind))
	s := exact.FloatString(3)
	if rng.Intn(2) == 0 {
		s = strings.TrimRight(strings.TrimRight(s, "0"), ".")
		if s == "" || s == "-" {
			s = "0"
		}
	}
	return s
}

func fmtNum(v float64, rng *rand.Rand) string {
	s := strconv.FormatFloat(v, 'f', -1, 64)
	switch rng.Intn(5) {
	case 0:
		if !strings.Contains(s, ".") {
			s += ".0"
		}
	case 1:
		if v > 0 {
			s = "+" + s
		}
	case 2:
		if !strings.Contains(s, ".") && v != 0 {
			s = strconv.FormatFloat(v, 'e', -1, 64)
		}
	}
	return s
}

func (w *world) milliQ(q int) int64 { return int64(float64(q) * w.uq * 1000) }
func (w *world) milliC(c int) int64 { return int64(float64(c) * w.uq * w.ua * 1000) }
func (w *world) milliA(a int) int64 { return int64(float64(a) * w.ua * 1000) }

func (w *world) bookText(c *repCase, cc *concretiser) string {
	var sb strings.Builder
	for _, r := range c.Book {
		sb.WriteString(w.names[r.Name] + ":\n")
		if cc.rng.Intn(30) == 0 {
			// a comment of 4 KiB .. 40 KiB inside a recipe (beyond bufio's buffer, within the scanner's limit)
			sb.WriteString("# " + strings.Repeat("a long comment, 1 ", 240+cc.rng.Intn(2000)) + "\n")
		}
		for _, el := range r.Els {
			sb.WriteString(cc.entryLine(w.names[el[0]], fmtNum(float64(el[1])*w.ua, cc.rng)) + "\n")
		}
	}
	return sb.String()
}

func (w *world) logText(days []absDay, cc *concretiser) string {
	var sb strings.Builder
	for _, d := range days {
		sb.WriteString(w.dates[d.Date] + ":\n")
		if cc.rng.Intn(40) == 0 {
			sb.WriteString("# " + strings.Repeat("a long comment: 1 ", 240+cc.rng.Intn(2000)) + "\n")
		}
		for _, e := range d.Es {
			sb.WriteString(cc.entryLine(w.names[e[0]], w.lit(e[1], 'Q', cc.rng)) + "\n")
		}
		if cc.rng.Intn(3) == 0 {
			sb.WriteString("\n")
		}
	}
	return sb.String()
}

func newWorld(rng *rand.Rand, maxID int, odd bool) *world {
	pool := plainPool
	if odd {
		pool = mergedPool()
	}
	w := &world{names: pickNames(rng, pool, maxID)}
	w.uq = []float64{1, 0.5}[rng.Intn(2)]
	w.ua = []float64{1, 0.5}[rng.Intn(2)]
	w.dates = []string{"", "2021/03/04", "2021/03/05", "2021/03/06", "2021/04/01", "2021/04/02", "2021/04/03"}
	w.iso = []string{"", "2021-03-04", "2021-03-05", "2021-03-06", "2021-04-01", "2021-04-02", "2021-04-03"}
	return w
}

type cmpCtx struct {
	e    *env
	c    interface{}
	w    *world
	book string
	log  string
}

func (x *cmpCtx) bad(shape, site, what string) {
	x.e.mismatch(shape, site, what, map[string]interface{}{"case": x.c, "book": x.book, "log": x.log, "names": x.w.names, "uq": x.w.uq, "ua": x.w.ua})
}

func (x *cmpCtx) run(args ...string) (string, bool) {
	out := &failWriter{limit: -1}
	res := runInProc(args, map[string]fileSrc{"food.yaml": strSrc(x.book), "log.yaml": strSrc(x.log)}, out)
	x.e.count(0, 1, 0)
	if res.Panicked != nil || res.TimedOut || res.Err != nil {
		x.bad("report-fails", "cmd/hranoprovod-cli", fmt.Sprintf("%v fails on a well-formed input: err=%v panic=%v", args, res.Err, res.Panicked))
		return "", false
	}
	return out.buf.String(), true
}

// compareRegister checks parsed register days against the specification's chunks
func (x *cmpCtx) compareRegister(tag string, got []regDay, want []absRegDay, foods, totals bool) {
	w := x.w
	site := "cmd/hranoprovod-cli/internal/register"
	if len(got) != len(want) {
		x.bad("register-days", site, fmt.Sprintf("%s shows %d days, specification predicts %d", tag, len(got), len(want)))
		return
	}
	for i, wd := range want {
		g := got[i]
		if g.Date != w.dates[wd.Date] {
			x.bad("register-days", site, fmt.Sprintf("%s day %d is dated %q, specification predicts %q", tag, i, g.Date, w.dates[wd.Date]))
			return
		}
		if foods {
			if len(g.Foods) != len(wd.Foods) {
				x.bad("register-foods", site, fmt.Sprintf("%s day %s shows %d foods %+v, specification predicts %d", tag, g.Date, len(g.Foods), g.Foods, len(wd.Foods)))
				return
			}
			for j, wf := range wd.Foods {
				gf := g.Foods[j]
				if gf.Name != w.names[wf.Name] || !w.near(gf.Qty, wf.Qty, 'Q', 2) {
					x.bad("register-foods", site, fmt.Sprintf("%s day %s food %d is (%q, %d/1000), specification predicts (%q, %d/1000)", tag, g.Date, j, gf.Name, gf.Qty, w.names[wf.Name], w.milliQ(wf.Qty)))
					return
				}
				if len(gf.Ingr) != len(wf.Ingr) {
					x.bad("register-ingredients", site, fmt.Sprintf("%s day %s food %q shows %d ingredient rows %+v, specification predicts %d", tag, g.Date, gf.Name, len(gf.Ingr), gf.Ingr, len(wf.Ingr)))
					return
				}
				for k, wi := range wf.Ingr {
					// an undefined food stands for itself with its own quantity; a defined one contributes quantity x amount
					exp := w.milliC(wi[1])
					kind := byte('C')
					if len(wf.Ingr) == 1 && wi[0] == wf.Name && !x.defined(wf.Name) {
						exp = w.milliQ(wi[1])
						kind = 'Q'
					}
					if gf.Ingr[k].Name != w.names[wi[0]] || !w.near(gf.Ingr[k].Val, wi[1], kind, 2) {
						x.bad("register-ingredients", site, fmt.Sprintf("%s day %s food %q ingredient %d is (%q, %d/1000), specification predicts (%q, %d/1000)", tag, g.Date, gf.Name, k, gf.Ingr[k].Name, gf.Ingr[k].Val, w.names[wi[0]], exp))
						return
					}
				}
			}
		}
		if totals {
			if len(g.Totals) != len(wd.Totals) {
				x.bad("register-totals", site, fmt.Sprintf("%s day %s shows %d total rows %+v, specification predicts %d", tag, g.Date, len(g.Totals), g.Totals, len(wd.Totals)))
				return
			}
			for j, wt := range wd.Totals {
				gt := g.Totals[j]
				p, n, s := x.milliTotal(wt)
				if gt.Name != w.names[wt.Name] || !w.near(gt.Pos, wt.Pos, 'C', 2) || !w.near(gt.Neg, wt.Neg, 'C', 2) || !w.near(gt.Sum, wt.Sum, 'C', 2) {
					x.bad("register-totals", site, fmt.Sprintf("%s day %s total %d is %+v, specification predicts (%q, %d, %d, %d)/1000", tag, g.Date, j, gt, w.names[wt.Name], p, n, s))
					return
				}
			}
		}
	}
}

// defined reports whether the case's book defines the food
func (x *cmpCtx) defined(id int) bool {
	if c, ok := x.c.(*repCase); ok {
		for _, r := range c.Book {
			if r.Name == id {
				return true
			}
		}
	}
	return false
}

// A total mixes contributions in unit uq*ua (through the book) and uq (foods logged directly).  The
// specification's integers are exact in both; the harness keeps ua = 1 whenever a name is both logged
// directly and produced by the book, so one scale applies per case (see reportersReplay).
func (x *cmpCtx) milliTotal(t absTotal) (int64, int64, int64) {
	return x.w.milliC(t.Pos), x.w.milliC(t.Neg), x.w.milliC(t.Sum)
}

func reportersReplay(e *env) error {
	return e.parallelCases(func(idx int, raw json.RawMessage, rng *rand.Rand) error {
		c := &repCase{}
		if err := json.Unmarshal(raw, c); err != nil {
			return err
		}
		e.count(1, 0, 0)
		maxID := c.Element
		for _, r := range c.Book {
			if r.Name > maxID {
				maxID = r.Name
			}
			for _, el := range r.Els {
				if el[0] > maxID {
					maxID = el[0]
				}
			}
		}
		nEntries := 0
		for _, d := range c.Log {
			nEntries += len(d.Es)
			for _, en := range d.Es {
				if en[0] > maxID {
					maxID = en[0]
				}
			}
		}
		if nEntries >= 2 {
			e.count(0, 0, 1)
		}
		w := newWorld(rng, maxID, idx%2 == 0)
		// totals add amounts that came through the book (uq*ua) to directly logged ones (uq): one scale only
		w.ua = 1
		// a third of the cases use a quantity unit with three decimals: figures are then compared within half
		// a unit of the last printed digit (sub-cent parts must be summed before rounding, not after)
		if idx%3 == 2 {
			w.uqS = []string{"1.004", "0.836", "0.125", "2.508", "0.004"}[rng.Intn(5)]
			f, _ := new(big.Rat).SetString(w.uqS)
			w.uq, _ = f.Float64()
		}
		cc := &concretiser{rng: rng}
		x := &cmpCtx{e: e, c: c, w: w}
		x.book = w.bookText(c, cc)
		x.log = w.logText(c.Log, cc)
		el := w.names[c.Element]
		if idx%4000 == 1 {
			e.sample(map[string]interface{}{"book": x.book, "log": x.log, "spec_totals": c.Totals})
		}
		// ---- register in its three renderings, with and without totals ----
		for _, t := range []struct {
			tag  string
			args []string
		}{
			{"default", []string{"--no-color", "reg"}},
			{"left", []string{"--no-color", "reg", "--internal-template-name", "left-aligned"}},
			{"old", []string{"--no-color", "reg", "--use-old-reg-reporter"}},
		} {
			tmpl := t.tag
			if tmpl == "old" {
				tmpl = "default"
			}
			if out, ok := x.run(t.args...); ok {
				days, err := parseRegister(out, tmpl)
				if err != nil {
					x.bad("register-unparsable", "cmd/hranoprovod-cli/internal/register", fmt.Sprintf("reg (%s): %v", t.tag, err))
				} else {
					x.compareRegister("reg/"+t.tag, days, c.Reg, true, true)
				}
			}
		}
		// ---- summary per day: positive totals and foods of that day ----
		seenDate := map[int]bool{}
		for _, d := range c.Log {
			if seenDate[d.Date] {
				continue
			}
			seenDate[d.Date] = true
			if out, ok := x.run("--no-color", "summary", w.dates[d.Date]); ok {
				sd, err := parseSummary(out)
				if err != nil {
					x.bad("summary-unparsable", "cmd/hranoprovod-cli/internal/summary", err.Error())
					continue
				}
				var want []absRegDay
				for _, rd := range c.Reg {
					if rd.Date == d.Date {
						want = append(want, rd)
					}
				}
				if len(sd) != len(want) {
					x.bad("summary-days", "cmd/hranoprovod-cli/internal/summary", fmt.Sprintf("summary %s shows %d days, the register %d", w.dates[d.Date], len(sd), len(want)))
					continue
				}
				for i, wd := range want {
					okDay := len(sd[i].Foods) == len(wd.Foods) && len(sd[i].Totals) == len(wd.Totals)
					for j := 0; okDay && j < len(wd.Foods); j++ {
						okDay = sd[i].Foods[j].Name == w.names[wd.Foods[j].Name] && w.near(sd[i].Foods[j].Val, wd.Foods[j].Qty, 'Q', 2)
					}
					for j := 0; okDay && j < len(wd.Totals); j++ {
						okDay = sd[i].Totals[j].Name == w.names[wd.Totals[j].Name] && w.near(sd[i].Totals[j].Val, wd.Totals[j].Pos, 'C', 2)
					}
					if !okDay {
						x.bad("summary-differs-from-register", "cmd/hranoprovod-cli/internal/summary", fmt.Sprintf("summary %s shows %+v, specification (= register of that day) predicts %+v", w.dates[d.Date], sd[i], wd))
					}
				}
			}
		}
		// ---- csv log ----
		if out, ok := x.run("csv", "log"); ok {
			recs, err := parseCSVStrict(out)
			if err != nil {
				x.bad("csv-invalid", "cmd/hranoprovod-cli/internal/csv", "csv log is not valid RFC 4180: "+err.Error())
			} else if len(recs) != len(c.CsvLog) {
				x.bad("csv-log-rows", "cmd/hranoprovod-cli/internal/csv", fmt.Sprintf("csv log has %d rows, specification predicts %d", len(recs), len(c.CsvLog)))
			} else {
				for i, r := range c.CsvLog {
					v, okv := int64(0), false
					if len(recs[i]) == 3 {
						v, okv = parseMilli(recs[i][2])
					}
					if len(recs[i]) != 3 || recs[i][0] != w.iso[r.Date] || recs[i][1] != w.names[r.Name] || !okv || !w.near(v, r.Qty, 'Q', 3) || !threeDecimals(recs[i][2]) {
						x.bad("csv-log-rows", "cmd/hranoprovod-cli/internal/csv", fmt.Sprintf("csv log row %d is %q, specification predicts (%s, %q, %d/1000)", i, recs[i], w.iso[r.Date], w.names[r.Name], w.milliQ(r.Qty)))
						break
					}
				}
			}
		}
		// ---- csv log under another date format: the export's dates stay ISO, everything else identical ----
		if idx%4 == 0 {
			alt := x.log
			for d := 1; d < len(w.dates); d++ {
				if t, err := time.Parse("2006/01/02", w.dates[d]); err == nil {
					alt = strings.ReplaceAll(alt, w.dates[d]+":", t.Format("02.01.2006")+":")
				}
			}
			o1, ok1 := x.run("csv", "log")
			saved := x.log
			x.log = alt
			o2, ok2 := x.run("--date-format", "02.01.2006", "csv", "log")
			x.log = saved
			if ok1 && ok2 && o1 != o2 {
				x.bad("csv-log-rows", "cmd/hranoprovod-cli/internal/csv", fmt.Sprintf("csv log with --date-format 02.01.2006 prints %q; with the default format %q", o2, o1))
			}
		}
		// ---- reg -f <matches everything>: same rows as the csv log, two decimals, tab separated ----
		if out, ok := x.run("reg", "-f", "."); ok {
			var lines []string
			if out != "" {
				lines = strings.Split(strings.TrimSuffix(out, "\n"), "\n")
			}
			if len(lines) != len(c.CsvLog) {
				x.bad("single-food-rows", "cmd/hranoprovod-cli/internal/register", fmt.Sprintf("reg -f . has %d rows, specification predicts %d", len(lines), len(c.CsvLog)))
			} else {
				for i, r := range c.CsvLog {
					f := strings.Split(lines[i], "\t")
					v, okv := int64(0), false
					if len(f) >= 3 {
						v, okv = parseMilli(f[len(f)-1])
					}
					if len(f) < 3 || f[0] != w.dates[r.Date] || strings.Join(f[1:len(f)-1], "\t") != w.names[r.Name] || !okv || !w.near(v, r.Qty, 'Q', 2) {
						x.bad("single-food-rows", "cmd/hranoprovod-cli/internal/register", fmt.Sprintf("reg -f . row %d is %q, specification predicts (%s, %q, %d/1000)", i, lines[i], w.dates[r.Date], w.names[r.Name], w.milliQ(r.Qty)))
						break
					}
				}
			}
		}
		// ---- reg -s Element ----
		if out, ok := x.run("reg", "-s", el); ok {
			rows, err := parseSingle(out, len(w.dates[1]))
			if err != nil {
				x.bad("single-unparsable", "cmd/hranoprovod-cli/internal/register", err.Error())
			} else if len(rows) != len(c.Single) {
				x.bad("single-element-rows", "cmd/hranoprovod-cli/internal/register", fmt.Sprintf("reg -s %q has %d rows %+v, specification predicts %d", el, len(rows), rows, len(c.Single)))
			} else {
				for i, r := range c.Single {
					g := rows[i]
					if g.Date != w.dates[r.Date] || g.Name != el || !w.near(g.Pos, r.Pos, 'C', 2) || !w.near(-g.Neg, r.Neg, 'C', 2) || !w.near(g.Sum, r.Sum, 'C', 2) {
						x.bad("single-element-rows", "cmd/hranoprovod-cli/internal/register", fmt.Sprintf("reg -s %q row %d is %+v, specification predicts (%s, pos %d, neg %d, sum %d)/1000", el, i, g, w.dates[r.Date], w.milliC(r.Pos), -w.milliC(r.Neg), w.milliC(r.Sum)))
						break
					}
				}
			}
		}
		// ---- report totals ----
		if out, ok := x.run("report", "totals"); ok {
			rows, err := parseTotalsReport(out)
			if err != nil {
				x.bad("totals-unparsable", "cmd/hranoprovod-cli/internal/report", err.Error())
			} else if len(rows) != len(c.Totals) {
				x.bad("report-totals-rows", "cmd/hranoprovod-cli/internal/report", fmt.Sprintf("report totals has %d rows %+v, specification predicts %d", len(rows), rows, len(c.Totals)))
			} else {
				for i, r := range c.Totals {
					p, n, s := x.milliTotal(r)
					if rows[i].Name != w.names[r.Name] || !w.near(rows[i].Pos, r.Pos, 'C', 2) || !w.near(rows[i].Neg, r.Neg, 'C', 2) || !w.near(rows[i].Sum, r.Sum, 'C', 2) {
						x.bad("report-totals-rows", "cmd/hranoprovod-cli/internal/report", fmt.Sprintf("report totals row %d is %+v, specification predicts (%q, %d, %d, %d)/1000", i, rows[i], w.names[r.Name], p, n, s))
						break
					}
				}
			}
		}
		// ---- report quantity, ascending and descending ----
		for _, q := range []struct {
			args []string
			want []absQty
		}{{[]string{"report", "quantity"}, c.Qty}, {[]string{"report", "quantity", "--desc"}, c.QtyDesc}} {
			if out, ok := x.run(q.args...); ok {
				rows, err := parseNumTabName(out)
				if err != nil {
					x.bad("quantity-unparsable", "cmd/hranoprovod-cli/internal/report", err.Error())
					continue
				}
				// same rows, amounts monotone in the requested direction; how ties are ordered is not fixed by any
				// property (only that it is stable from run to run, C05), so ties are compared as sets
				okq := len(rows) == len(q.want)
				wantSet := map[string]int64{}
				wantModel := map[string]int{}
				for _, r := range q.want {
					wantSet[w.names[r.Name]] = w.milliQ(r.Qty)
					wantModel[w.names[r.Name]] = r.Qty
				}
				for i := 0; okq && i < len(rows); i++ {
					_, known := wantSet[rows[i].Name]
					okq = known && w.near(rows[i].Val, wantModel[rows[i].Name], 'Q', 2) && w.near(rows[i].Val, q.want[i].Qty, 'Q', 2)
					delete(wantSet, rows[i].Name)
				}
				if !okq {
					x.bad("report-quantity-rows", "cmd/hranoprovod-cli/internal/report", fmt.Sprintf("%v prints %+v, specification predicts %+v (names %q)", q.args, rows, q.want, w.names))
				}
			}
		}
		// ---- reg -s Element -g ----
		if out, ok := x.run("reg", "-s", el, "-g"); ok {
			var rows []regIngr
			var err error
			if out != "" {
				var sb strings.Builder
				for _, l := range strings.Split(strings.TrimSuffix(out, "\n"), "\n") {
					sb.WriteString(strings.TrimLeft(l, " ") + "\n")
				}
				rows, err = parseNumTabName(sb.String())
			}
			okb := err == nil && len(rows) == len(c.ByFood)
			for i := 0; okb && i < len(rows); i++ {
				okb = rows[i].Name == w.names[c.ByFood[i].Name] && w.near(rows[i].Val, c.ByFood[i].Sum, 'C', 2)
			}
			if !okb {
				x.bad("element-by-food-rows", "cmd/hranoprovod-cli/internal/register", fmt.Sprintf("reg -s %q -g prints %q, specification predicts %+v", el, out, c.ByFood))
			}
		}
		// ---- report unresolved ----
		if out, ok := x.run("report", "unresolved"); ok {
			var lines []string
			if out != "" {
				lines = strings.Split(strings.TrimSuffix(out, "\n"), "\n")
			}
			oku := len(lines) == len(c.Unres)
			for i := 0; oku && i < len(lines); i++ {
				oku = lines[i] == w.names[c.Unres[i]]
			}
			if !oku {
				x.bad("report-unresolved-rows", "cmd/hranoprovod-cli/internal/report", fmt.Sprintf("report unresolved prints %q, specification predicts ids %v of %q", lines, c.Unres, w.names))
			}
		}
		// ---- bal -s Element: grand total ----
		if out, ok := x.run("bal", "-s", el); ok {
			_, tot, err := parseBalance(out)
			if err != nil || tot == nil {
				x.bad("balance-unparsable", "cmd/hranoprovod-cli/internal/balance", fmt.Sprintf("bal -s: %v (output %q)", err, out))
			} else if !w.near(tot.Val, c.BalTotal, 'C', 2) || tot.Label != el {
				x.bad("balance-single-total", "cmd/hranoprovod-cli/internal/balance", fmt.Sprintf("bal -s %q grand total is %d/1000 (%q), specification predicts %d/1000", el, tot.Val, tot.Label, w.milliC(c.BalTotal)))
			}
		}
		return nil
	})
}

func threeDecimals(s string) bool {
	i := strings.IndexByte(s, '.')
	return i >= 0 && len(s)-i-1 == 3
}
