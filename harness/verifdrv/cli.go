package verifdrv

import (
	"bytes"
	"errors"
	"fmt"
	"io"
	"os"
	"os/exec"
	"strings"
	"time"

	"github.com/aquilax/hranoprovod-cli/cmd/hranoprovod-cli/v3/internal/balance"
	"github.com/aquilax/hranoprovod-cli/cmd/hranoprovod-cli/v3/internal/csv"
	"github.com/aquilax/hranoprovod-cli/cmd/hranoprovod-cli/v3/internal/lint"
	"github.com/aquilax/hranoprovod-cli/cmd/hranoprovod-cli/v3/internal/options"
	"github.com/aquilax/hranoprovod-cli/cmd/hranoprovod-cli/v3/internal/print"
	"github.com/aquilax/hranoprovod-cli/cmd/hranoprovod-cli/v3/internal/register"
	"github.com/aquilax/hranoprovod-cli/cmd/hranoprovod-cli/v3/internal/report"
	"github.com/aquilax/hranoprovod-cli/cmd/hranoprovod-cli/v3/internal/reporter"
	"github.com/aquilax/hranoprovod-cli/cmd/hranoprovod-cli/v3/internal/stats"
	"github.com/aquilax/hranoprovod-cli/cmd/hranoprovod-cli/v3/internal/summary"
	"github.com/aquilax/hranoprovod-cli/cmd/hranoprovod-cli/v3/internal/utils"
	"github.com/aquilax/hranoprovod-cli/v3/parser"
	"github.com/urfave/cli/v2"
)

// ---- in-process command runner -----------------------------------------------------------
//
// The commands are built with the exported constructors the repository's own e2e test uses, with
// a CmdUtils whose WithFileReaders hands out readers chosen by file name (so that a reader can be
// made to fail) and whose WithOptions loads the real options from the real flag parser and then
// points the report output at the harness's writer (which can be made to fail).

// fileSrc produces a fresh reader for one named input file; nil = the file does not exist
type fileSrc func() io.Reader

type runResult struct {
	Err      error
	Panicked interface{}
	Out      string
	TimedOut bool
}

func strSrc(s string) fileSrc { return func() io.Reader { return strings.NewReader(s) } }

func mockCmdUtils(files map[string]fileSrc, out io.Writer) utils.CmdUtils {
	return utils.CmdUtils{
		WithFileReaders: func(fileNames []string, cb func([]io.Reader) error) error {
			streams := make([]io.Reader, len(fileNames))
			for i, n := range fileNames {
				if n == "" {
					streams[i] = strings.NewReader("")
					continue
				}
				src, ok := files[n]
				if !ok || src == nil {
					return &os.PathError{Op: "open", Path: n, Err: os.ErrNotExist}
				}
				streams[i] = src()
			}
			return cb(streams)
		},
		WithOptions: func(c *cli.Context, cb func(*options.Options) error) error {
			o := options.New()
			if err := o.Load(c, false); err != nil {
				return err
			}
			o.ReporterConfig.Output = out
			return cb(o)
		},
	}
}

func mockApp(files map[string]fileSrc, out io.Writer) *cli.App {
	cu := mockCmdUtils(files, out)
	return &cli.App{
		Name:  "hranoprovod-cli",
		Flags: getApp().Flags,
		Commands: []*cli.Command{
			register.NewRegisterCommand(cu, register.Register),
			balance.NewBalanceCommand(cu, balance.Balance),
			csv.NewCSVCommand(cu),
			report.NewReportCommand(cu),
			summary.NewSummaryCommand(cu, summary.Summary),
			print.NewPrintCommand(cu, print.Print),
			stats.NewStatsCommand(cu, stats.Stats),
		},
		ExitErrHandler: func(*cli.Context, error) {},
		Writer:         io.Discard,
		ErrWriter:      io.Discard,
	}
}

// runInProc runs one command line (without the program name) in-process.  `lint FILE` and
// `lint -s FILE` are served by lint.Lint directly (its command constructor is not exported).
func runInProc(args []string, files map[string]fileSrc, out io.Writer) (res runResult) {
	done := make(chan runResult, 1)
	go func() {
		var r runResult
		defer func() {
			if p := recover(); p != nil {
				r.Panicked = p
			}
			done <- r
		}()
		if len(args) > 0 && args[0] == "lint" {
			silent := false
			name := ""
			for _, a := range args[1:] {
				if a == "-s" || a == "--silent" {
					silent = true
				} else {
					name = a
				}
			}
			src, ok := files[name]
			if !ok || src == nil {
				r.Err = &os.PathError{Op: "open", Path: name, Err: os.ErrNotExist}
				return
			}
			rc := reporter.NewDefaultConfig()
			rc.Output = out
			r.Err = lint.Lint(src(), lint.LintConfig{Silent: silent, ParserConfig: parser.NewDefaultConfig(), ReporterConfig: rc})
			return
		}
		r.Err = mockApp(files, out).Run(append([]string{"hranoprovod-cli"}, args...))
	}()
	select {
	case res = <-done:
	case <-time.After(20 * time.Second):
		res.TimedOut = true
	}
	return
}

// failWriter accepts `limit` bytes and then fails every write (limit < 0: never fails)
type failWriter struct {
	limit   int
	n       int
	buf     bytes.Buffer
	failed  bool
	writes  int
	partial bool // accept the part of a write that fits before failing
}

var errSink = errors.New("injected write failure: no space left on device")

func (w *failWriter) Write(p []byte) (int, error) {
	w.writes++
	if w.limit < 0 || w.n+len(p) <= w.limit {
		w.n += len(p)
		w.buf.Write(p)
		return len(p), nil
	}
	w.failed = true
	k := 0
	if w.partial && w.limit > w.n {
		k = w.limit - w.n
		w.buf.Write(p[:k])
		w.n += k
	}
	return k, errSink
}

// ---- the real binary ------------------------------------------------------------------

type binResult struct {
	Exit     int
	Stdout   string
	Stderr   string
	TimedOut bool
}

func runBinary(dir string, env []string, stdout *os.File, args ...string) binResult {
	bin := os.Getenv("VERIF_BIN")
	cmd := exec.Command(bin, args...)
	cmd.Dir = dir
	cmd.Env = append([]string{"HOME=" + dir, "PATH=/usr/bin:/bin", "TZ=UTC"}, env...)
	var so, se bytes.Buffer
	if stdout != nil {
		cmd.Stdout = stdout
	} else {
		cmd.Stdout = &so
	}
	cmd.Stderr = &se
	if err := cmd.Start(); err != nil {
		return binResult{Exit: -1, Stderr: err.Error()}
	}
	done := make(chan error, 1)
	go func() { done <- cmd.Wait() }()
	select {
	case err := <-done:
		r := binResult{Stdout: so.String(), Stderr: se.String()}
		if err != nil {
			var ee *exec.ExitError
			if errors.As(err, &ee) {
				r.Exit = ee.ExitCode()
			} else {
				r.Exit = -1
			}
		}
		return r
	case <-time.After(20 * time.Second):
		cmd.Process.Kill()
		return binResult{Exit: -2, TimedOut: true, Stdout: so.String(), Stderr: se.String()}
	}
}

func writeFile(path, content string) {
	if err := os.WriteFile(path, []byte(content), 0o644); err != nil {
		panic(err)
	}
}

func errText(err error) string {
	if err == nil {
		return "<nil>"
	}
	return fmt.Sprintf("%T: %v", err, err)
}
