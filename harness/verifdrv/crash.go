package verifdrv

import (
	"encoding/json"
	"fmt"
	"math"
	"os"
	"strings"
	"sync"
)

func init() {
	modes["crash-family"] = crashFamily
	modes["crash-fuzz"] = crashFuzz
	modes["crash-binary"] = crashBinary
}

// crashBinary: every command / flag shape on the REAL binary (its own CmdUtils: real files, real stdout), on the
// fixed inputs and a few mutated ones: the exit status must be 0 or 1, never a panic or a signal
func crashBinary(e *env) error {
	dir := os.Getenv("VERIF_SCRATCH") + "/crashbin"
	os.MkdirAll(dir, 0o755)
	n := e.argInt("inputs", 6)
	shapes := append(append([][]string{}, crashShapes...), []string{"gen", "man"}, []string{"gen", "markdown"}, []string{"stats"}, []string{"--help"}, []string{"report"}, []string{"csv"})
	for i := 0; i < n; i++ {
		book, log := fixedBook, fixedLog
		switch i % 3 {
		case 1:
			log = mutate(e, log)
		case 2:
			book = mutate(e, book)
		}
		writeFile(dir+"/food.yaml", book)
		writeFile(dir+"/log.yaml", log)
		for _, args := range shapes {
			r := runBinary(dir, nil, nil, args...)
			e.sum.Runs++
			rec := map[string]interface{}{"args": args, "book": trunc(book), "log": trunc(log)}
			switch {
			case r.TimedOut:
				e.mismatch("cli-hang", "cmd/hranoprovod-cli", fmt.Sprintf("binary %v does not exit within 20 s", args), rec)
			case r.Exit != 0 && r.Exit != 1, strings.Contains(r.Stderr, "panic:"), strings.Contains(r.Stderr, "fatal error:"):
				e.mismatch("cli-panic", "cmd/hranoprovod-cli", fmt.Sprintf("binary %v exits %d: %s", args, r.Exit, firstLine(r.Stderr)), rec)
			}
		}
		e.sum.Cases++
		e.sum.Nontrivial++
	}
	return nil
}

// every command and flag shape the crash checks drive (C08)
var crashShapes = [][]string{
	{"--no-color", "reg"}, {"reg"}, {"--no-color", "reg", "--use-old-reg-reporter"}, {"reg", "--internal-template-name", "left-aligned"},
	{"reg", "--totals-only"}, {"reg", "--no-totals"}, {"reg", "--shorten"}, {"reg", "--no-totals", "--totals-only"},
	{"reg", "-s", "calories"}, {"reg", "--csv", "-s", "calories"}, {"reg", "-s", "calories", "-g"}, {"reg", "-f", "a"}, {"reg", "-f", "("},
	{"reg", "-b", "2021/01/01", "-e", "2021/01/02"}, {"-b", "2021/01/02", "reg"}, {"--today", "2021/01/03", "reg", "-b", "yesterday"},
	{"bal"}, {"bal", "-c"}, {"bal", "--collapse-last"}, {"bal", "-s", "calories"}, {"bal", "-s", "calories", "-c"}, {"bal", "-s", "calories", "--collapse-last"},
	{"csv", "log"}, {"csv", "database"}, {"csv", "database-resolved"}, {"print"},
	{"--no-color", "summary", "2021/01/01"}, {"--today", "2021/01/02", "summary", "today"}, {"--today", "2021/01/02", "summary", "yesterday"},
	{"report", "unresolved"}, {"report", "quantity"}, {"report", "quantity", "--desc"}, {"report", "totals"},
	{"report", "element-total", "calories"}, {"report", "element-total", "--desc", "calories"},
	{"lint", "log.yaml"}, {"lint", "-s", "log.yaml"}, {"lint", "food.yaml"},
	{"--maxdepth", "1", "--no-color", "reg"}, {"--maxdepth", "2", "csv", "database-resolved"}, {"--no-database", "report", "totals"},
	{"--date-format", "2006-01-02", "print"},
	// pairs of register switches
	{"--no-color", "reg", "--use-old-reg-reporter", "--no-totals"}, {"--no-color", "reg", "--use-old-reg-reporter", "--totals-only"}, {"--no-database", "--no-color", "reg", "--use-old-reg-reporter", "--no-totals"},
	{"reg", "--internal-template-name", "left-aligned", "--no-totals", "--shorten"}, {"reg", "--internal-template-name", "left-aligned", "--totals-only"}, {"reg", "-s", "calories", "--use-old-reg-reporter"},
	{"--no-database", "csv", "database"}, {"--no-database", "csv", "database-resolved"}, {"--no-database", "report", "element-total", "calories"}, {"--no-database", "stats"},
	{"--no-database", "--no-color", "reg"}, {"--no-database", "bal", "-s", "calories"}, {"-d", "", "csv", "database"}, {"-l", "", "csv", "log"}, {"-l", "", "print"},
	{"reg", "-s", "Calories"}, {"reg", "-s", "CALORIES", "--csv"}, {"bal", "-s", "Fat"}, {"reg", "-s", "Calories", "-g"}, {"reg", "-f", "FOOD1"},
	{"--maxdepth", "0", "--no-color", "reg"}, {"--maxdepth", "-1", "csv", "database-resolved"}, {"--maxdepth", "0", "report", "element-total", "calories"},
}

const fixedBook = "food1:\n  calories: 10\n  fat: 1\na:\n  food1: 2\n  b: 1\nb:\n  calories: 1\n"
const fixedLog = "2021/01/01:\n  a: 1\n  food1: 2\n  zz: 3\n2021/01/02:\n  b: -1\n  calories: 100\n"

type shapeJob struct {
	book, log string
	rec       map[string]interface{}
}

var pendingJobs []shapeJob

// runAllShapes queues (book, log) for every command shape; flushShapes runs the queue on 12 goroutines
func runAllShapes(e *env, book, log string, rec map[string]interface{}) int {
	pendingJobs = append(pendingJobs, shapeJob{book, log, rec})
	if len(pendingJobs) >= 256 {
		return flushShapes(e)
	}
	return 0
}

func flushShapes(e *env) int {
	jobs := pendingJobs
	pendingJobs = nil
	type found struct {
		shape, what string
		rec         map[string]interface{}
	}
	results := make([][]found, len(jobs))
	var wg sync.WaitGroup
	next := make(chan int, len(jobs))
	for i := range jobs {
		next <- i
	}
	close(next)
	for w := 0; w < nWorkers(); w++ {
		wg.Add(1)
		go func() {
			defer wg.Done()
			for i := range next {
				j := jobs[i]
				for _, args := range crashShapes {
					files := map[string]fileSrc{"food.yaml": strSrc(j.book), "log.yaml": strSrc(j.log)}
					out := &failWriter{limit: -1}
					res := runInProc(args, files, out)
					if res.Panicked != nil {
						results[i] = append(results[i], found{"cli-panic", fmt.Sprintf("%v panics: %v", args, res.Panicked), j.rec})
					} else if res.TimedOut {
						results[i] = append(results[i], found{"cli-hang", fmt.Sprintf("%v does not return within 20 s", args), j.rec})
					}
				}
			}
		}()
	}
	wg.Wait()
	for _, rs := range results {
		for _, f := range rs {
			e.mismatch(f.shape, "cmd/hranoprovod-cli", f.what, f.rec)
		}
	}
	return len(jobs) * len(crashShapes)
}

// crashFamily: every file TLC enumerated over all line kinds (well-formed and malformed, orphans,
// empty files) is given to every command shape, once as the log and once as the recipe book.
func crashFamily(e *env) error {
	if err := e.eachCase(func(raw json.RawMessage) error {
		var c parserCase
		if err := json.Unmarshal(raw, &c); err != nil {
			return err
		}
		e.sum.Cases++
		for role := 0; role < 2; role++ {
			cc := newConcretiser(e.rng, 2, 2, 2, 1)
			if role == 0 {
				cc.heads = []string{"", "2021/01/01", "2021/01/02"}
			} else {
				cc.heads = []string{"", "a", "food1"}
				cc.names = []string{"", "a", "calories"} // "a: a" under heading a is a self-referencing recipe
			}
			var sb strings.Builder
			for _, l := range c.Lines {
				sb.WriteString(cc.lineText(l) + "\n")
			}
			book, log := fixedBook, sb.String()
			if role == 1 {
				book, log = sb.String(), fixedLog
			}
			rec := map[string]interface{}{"book": book, "log": log}
			e.sum.Runs += runAllShapes(e, book, log, rec)
		}
		e.sum.Nontrivial++
		if e.sum.Cases%500 == 1 {
			e.sample(c.Lines)
		}
		return nil
	}); err != nil {
		return err
	}
	e.sum.Runs += flushShapes(e)
	return nil
}

// ---- grammar-aware mutations and random bytes ----

var nasty = []string{"NaN", "Inf", "-Inf", "+Inf", "1e999", "-1e999", "1e-999", "0x1p-2", "0x", "1_000", "infinity", "nan", ".", "-", "+", "e", "1e", "--1", "1..2", "١٢", "1,5"}

// food / category names of unusual shape: many path segments, empty segments, only separators, very long
var pathNasty = []string{
	"s1/s2/s3/s4/s5/s6/s7/s8/s9/s10/s11/s12/s13/s14/s15/s16/s17/s18/s19/s20/s21/s22/s23/s24/s25/s26/s27/s28/s29/s30",
	"snack/fruit/", "drink//water", "/lead", "/", "a/", "//", "a/b/", "a/b//", "x/" + strings.Repeat("y/", 40) + "z", strings.Repeat("long", 80),
}

func mutate(e *env, s string) string {
	b := []byte(s)
	switch e.rng.Intn(14) {
	case 12, 13: // an entry (or a second one next to it) whose name has an unusual path shape
		lines := strings.Split(s, "\n")
		var idx []int
		for i, l := range lines {
			if strings.HasPrefix(l, "  ") {
				idx = append(idx, i)
			}
		}
		if len(idx) == 0 {
			return s
		}
		i := idx[e.rng.Intn(len(idx))]
		nl := "  " + pathNasty[e.rng.Intn(len(pathNasty))] + ": " + []string{"1", "-2", "0", "0.5"}[e.rng.Intn(4)]
		if e.rng.Intn(2) == 0 {
			lines[i] = nl
		} else {
			lines = append(lines[:i+1], append([]string{nl}, lines[i+1:]...)...)
		}
		return strings.Join(lines, "\n")
	case 0: // truncate
		if len(b) > 0 {
			b = b[:e.rng.Intn(len(b))]
		}
	case 1: // delete a byte
		if len(b) > 0 {
			i := e.rng.Intn(len(b))
			b = append(b[:i], b[i+1:]...)
		}
	case 2: // insert a structural byte
		i := e.rng.Intn(len(b) + 1)
		c := []byte{':', ' ', '\t', '-', '"', '#', '\n', '\r', 0, 0xff, 0xc3, '/'}[e.rng.Intn(12)]
		b = append(b[:i], append([]byte{c}, b[i:]...)...)
	case 3: // replace a number by a nasty literal
		lines := strings.Split(s, "\n")
		i := e.rng.Intn(len(lines))
		if j := strings.LastIndexAny(lines[i], " \t"); j >= 0 {
			lines[i] = lines[i][:j+1] + nasty[e.rng.Intn(len(nasty))]
		}
		return strings.Join(lines, "\n")
	case 4: // duplicate a line
		lines := strings.Split(s, "\n")
		i := e.rng.Intn(len(lines))
		lines = append(lines[:i], append([]string{lines[i]}, lines[i:]...)...)
		return strings.Join(lines, "\n")
	case 5: // swap two lines
		lines := strings.Split(s, "\n")
		i, j := e.rng.Intn(len(lines)), e.rng.Intn(len(lines))
		lines[i], lines[j] = lines[j], lines[i]
		return strings.Join(lines, "\n")
	case 6: // lone CRs
		return strings.ReplaceAll(s, "\n", "\r")
	case 7: // a very long line
		return s + "  " + strings.Repeat("z", 70000+longLineLen()) + ": 1\n"
	case 8: // random bytes spliced in
		i := e.rng.Intn(len(b) + 1)
		r := make([]byte, 1+e.rng.Intn(12))
		e.rng.Read(r)
		b = append(b[:i], append(r, b[i:]...)...)
	case 9: // unindent / indent a line
		lines := strings.Split(s, "\n")
		i := e.rng.Intn(len(lines))
		if strings.HasPrefix(lines[i], "  ") {
			lines[i] = lines[i][2:]
		} else {
			lines[i] = "  " + lines[i]
		}
		return strings.Join(lines, "\n")
	case 10: // make a recipe refer to itself or to its user (cycle)
		return s + "a:\n  a: 1\nb:\n  a: 2\nfood1:\n  b: 1\n"
	case 11: // separators
		return strings.ReplaceAll(s, ": ", [...]string{":", " ", ":: ", " : ", ":\t\t"}[e.rng.Intn(5)])
	}
	return string(b)
}

func randomBytes(e *env) string {
	n := e.rng.Intn(200)
	b := make([]byte, n)
	alphabet := []byte("ab1. :\t-\"#\n\n\n  /é\xff\x00e+")
	for i := range b {
		if e.rng.Intn(4) == 0 {
			b[i] = byte(e.rng.Intn(256))
		} else {
			b[i] = alphabet[e.rng.Intn(len(alphabet))]
		}
	}
	return string(b)
}

// crashFuzz: grammar-aware mutations of valid files and random byte strings through every command
// shape; args: start, count (cases), sync (1: write each input to VERIF_SCRATCH/current_input.json
// before running it, used to pin down an input that kills the process)
func crashFuzz(e *env) error {
	start, count, sync := e.argInt("start", 0), e.argInt("count", 300), e.argInt("sync", 0)
	scratch := os.Getenv("VERIF_SCRATCH")
	for i := 0; i < start+count; i++ {
		book, log := fixedBook, fixedLog
		kind := i % 5
		switch kind {
		case 0:
			log = mutate(e, log)
		case 1:
			book = mutate(e, book)
		case 2:
			log, book = mutate(e, mutate(e, log)), mutate(e, book)
		case 3:
			log = randomBytes(e)
		case 4:
			book = randomBytes(e)
		}
		if i < start {
			continue
		}
		if sync == 1 {
			b, _ := json.Marshal(map[string]interface{}{"index": i, "book": book, "log": log})
			os.WriteFile(scratch+"/current_input.json", b, 0o644)
		}
		if i%200 == 0 {
			fmt.Fprintf(os.Stderr, "PROGRESS %d\n", i)
		}
		rec := map[string]interface{}{"index": i, "book": trunc(book), "log": trunc(log)}
		e.sum.Runs += runAllShapes(e, book, log, rec)
		if sync == 1 {
			e.sum.Runs += flushShapes(e)
		}
		e.sum.Cases++
		e.sum.Nontrivial++
		if i-start < 2 {
			e.sample(rec)
		}
	}
	_ = math.Pi
	e.sum.Runs += flushShapes(e)
	return nil
}

func trunc(s string) string {
	if len(s) > 600 {
		return s[:300] + "…(" + fmt.Sprint(len(s)) + " bytes)…" + s[len(s)-200:]
	}
	return s
}
