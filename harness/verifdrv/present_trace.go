package verifdrv

import (
	"encoding/json"
	"fmt"
	"regexp"
	"strconv"
	"strings"
	"unicode/utf8"
)

func init() {
	modes["present-trace"] = presentTrace
}

// ---- tokens of Present.tla ----

type pField struct {
	T   string `json:"t"`
	ID  int    `json:"id"`
	Cut bool   `json:"cut"`
	V   int    `json:"v"`
	Col string `json:"col"`
}
type pLine struct {
	K string   `json:"k"`
	D int      `json:"d"`
	F []pField `json:"f"`
}

const amtRe = "(\x1b\\[3[12]m)?( *-?\\d+\\.\\d\\d)(\x1b\\[0m)?"

var (
	reDefFood  = regexp.MustCompile("^\t(.*?) *:" + amtRe + "$")
	reDefTotal = regexp.MustCompile("^\t\t *(.*?) " + amtRe + " " + amtRe + " =" + amtRe + "$")
	reDefIngr  = regexp.MustCompile("^\t\t *(.*?) " + amtRe + "$")
	reDefHdr   = regexp.MustCompile("^\t-- TOTAL  -+$")
	reLeftTot  = regexp.MustCompile("^  " + amtRe + " " + amtRe + " = " + amtRe + "  (\\S.*)$")
	reLeftIngr = regexp.MustCompile("^  " + amtRe + "    (\\S.*)$")
	reLeftFood = regexp.MustCompile("^  " + amtRe + "  (\\S.*)$")
	reLeftHdr  = regexp.MustCompile("^-+ TOTAL --$")
)

// amount field from the three groups of amtRe: whole units only (the trace uses unit 1 everywhere)
func amtField(esc, num, reset string) pField {
	f := pField{T: "amt", Col: "none"}
	s := strings.TrimSpace(num)
	if !strings.HasSuffix(s, ".00") {
		f.V = 987654321 // not a whole number: no specification value matches
	} else if v, err := strconv.Atoi(strings.TrimSuffix(s, ".00")); err == nil {
		f.V = v
	} else {
		f.V = 987654321
	}
	switch {
	case esc == "\x1b[31m" && reset != "":
		f.Col = "red"
	case esc == "\x1b[32m" && reset != "":
		f.Col = "green"
	case esc != "" || reset != "":
		f.Col = "broken-escape"
	}
	return f
}

// name field: which name of the universe is shown and whether it was cut to the column of width w
func nameField(shown string, names []string, w int) pField {
	f := pField{T: "name", Col: "none"}
	for id := 1; id < len(names); id++ {
		if shown == names[id] {
			f.ID = id
			return f
		}
	}
	for id := 1; id < len(names); id++ {
		if utf8.RuneCountInString(names[id]) > w && shortenedOK(shown, names[id], w) {
			f.ID, f.Cut = id, true
			return f
		}
	}
	return f // id 0: not a name of the universe (garbled)
}

// presentLines turns the register output into Present.tla lines, grouped by day
func presentLines(out, tpl string, names []string, dateIdx map[string]int) (days [][]pLine, err error) {
	if out == "" {
		return nil, nil
	}
	for ln, line := range strings.Split(strings.TrimSuffix(out, "\n"), "\n") {
		var pl pLine
		switch {
		case tpl != "left" && reDefHdr.MatchString(line), tpl == "left" && reLeftHdr.MatchString(line):
			pl = pLine{K: "hdr", F: []pField{}}
		case tpl != "left" && reDefFood.MatchString(line):
			m := reDefFood.FindStringSubmatch(line)
			pl = pLine{K: "food", F: []pField{nameField(m[1], names, 27), amtField(m[2], m[3], m[4])}}
		case tpl != "left" && reDefTotal.MatchString(line):
			m := reDefTotal.FindStringSubmatch(line)
			pl = pLine{K: "total", F: []pField{nameField(m[1], names, 20), amtField(m[2], m[3], m[4]), amtField(m[5], m[6], m[7]), amtField(m[8], m[9], m[10])}}
		case tpl != "left" && reDefIngr.MatchString(line):
			m := reDefIngr.FindStringSubmatch(line)
			pl = pLine{K: "ingr", F: []pField{nameField(m[1], names, 20), amtField(m[2], m[3], m[4])}}
		case tpl == "left" && reLeftTot.MatchString(line):
			m := reLeftTot.FindStringSubmatch(line)
			pl = pLine{K: "total", F: []pField{amtField(m[1], m[2], m[3]), amtField(m[4], m[5], m[6]), amtField(m[7], m[8], m[9]), nameField(m[10], names, 0)}}
		case tpl == "left" && reLeftIngr.MatchString(line):
			m := reLeftIngr.FindStringSubmatch(line)
			pl = pLine{K: "ingr", F: []pField{amtField(m[1], m[2], m[3]), nameField(m[4], names, 0)}}
		case tpl == "left" && reLeftFood.MatchString(line):
			m := reLeftFood.FindStringSubmatch(line)
			pl = pLine{K: "food", F: []pField{amtField(m[1], m[2], m[3]), nameField(m[4], names, 0)}}
		default:
			d, ok := dateIdx[line]
			if !ok {
				return nil, fmt.Errorf("line %d %q is neither a date of the log nor a row of the %s layout", ln+1, line, tpl)
			}
			pl = pLine{K: "date", D: d, F: []pField{}}
			days = append(days, nil)
		}
		if len(days) == 0 {
			return nil, fmt.Errorf("line %d %q comes before any date line", ln+1, line)
		}
		days[len(days)-1] = append(days[len(days)-1], pl)
	}
	return days, nil
}

// presentTrace (C15, trace validation against Present.tla): for enumerated logs (Reporters.tla terminal states, whose
// register chunks are the report items) the real `reg` is run under every template x colour x shorten x totals
// mode; its output is cut into lines and fields and recorded, one Day event per date line:
//
//	{"ev":"Init","days":[{date,foods,totals}],"lens":[..],"flags":{tpl,colour,shorten,mode}}
//	{"ev":"Day","lines":[{k,d,f:[{t,id,cut,v,col}]}]}   {"ev":"End"}
//
// TLC accepts a run iff every day's lines are exactly what Present.tla renders for that item and those flags.
func presentTrace(e *env) error {
	stride := e.argInt("stride", 20)
	lengths := []int{5, 24, 30, 19, 20, 21, 27, 28}
	idx := 0
	return e.eachCase(func(raw json.RawMessage) error {
		idx++
		e.sum.Cases++
		if (idx+int(e.seed))%stride != 0 {
			return nil
		}
		c := &repCase{}
		if err := json.Unmarshal(raw, c); err != nil {
			return err
		}
		maxID := c.Element
		for _, r := range c.Book {
			if r.Name > maxID {
				maxID = r.Name
			}
			for _, el := range r.Els {
				if el[0] > maxID {
					maxID = el[0]
				}
			}
		}
		for _, d := range c.Log {
			for _, en := range d.Es {
				if en[0] > maxID {
					maxID = en[0]
				}
			}
		}
		w := newWorld(e.rng, maxID, false)
		w.uq, w.ua = 1, 1
		lens := make([]int, maxID)
		for i := 1; i <= maxID; i++ {
			L := lengths[(i+idx/7)%len(lengths)] // (idx/7: the sampled case numbers share a stride, their residues must still vary)
			filler := []string{"x", "é", "水", "y z"}[(i+idx/3)%4]
			n := string(rune('a'+i)) + "/"
			for utf8.RuneCountInString(n) < L-1 {
				n += filler
			}
			for utf8.RuneCountInString(n) > L-1 {
				_, sz := utf8.DecodeLastRuneInString(n)
				n = n[:len(n)-sz]
			}
			w.names[i] = n + "Z"
			lens[i-1] = utf8.RuneCountInString(w.names[i])
		}
		dateIdx := map[string]int{}
		for i, d := range w.dates {
			if d != "" {
				dateIdx[d] = i
			}
		}
		cc := &concretiser{rng: e.rng}
		x := &cmpCtx{e: e, c: c, w: w}
		x.book = w.bookText(c, cc)
		x.log = w.logText(c.Log, cc)
		e.sum.Nontrivial++
		for _, tpl := range []string{"default", "left", "old"} {
			for _, shorten := range []bool{false, true} {
				for _, mode := range []string{"both", "nototals", "totalsonly"} {
					for _, colour := range []bool{false, true} {
						var args []string
						if !colour {
							args = append(args, "--no-color")
						}
						args = append(args, "reg")
						switch tpl {
						case "left":
							args = append(args, "--internal-template-name", "left-aligned")
						case "old":
							args = append(args, "--use-old-reg-reporter")
						}
						if shorten {
							args = append(args, "--shorten")
						}
						switch mode {
						case "nototals":
							args = append(args, "--no-totals")
						case "totalsonly":
							args = append(args, "--totals-only")
						}
						out, ok := x.run(args...)
						if !ok {
							continue
						}
						days, err := presentLines(out, tpl, w.names, dateIdx)
						if err != nil {
							x.bad("register-unparsable", "cmd/hranoprovod-cli/internal/register", fmt.Sprintf("%v: %v", args, err))
							continue
						}
						e.emitEv("Init", map[string]interface{}{
							"days": c.Reg, "lens": lens,
							"flags": map[string]interface{}{"tpl": tpl, "colour": colour, "shorten": shorten, "mode": mode},
							"args":  args,
						})
						for _, d := range days {
							e.emitEv("Day", map[string]interface{}{"lines": d})
						}
						e.emitEv("End", map[string]interface{}{})
						e.sum.Traces++
					}
				}
			}
		}
		if idx%2000 == 0 {
			e.sample(map[string]interface{}{"log": x.log, "book": x.book, "flag_combinations": 36})
		}
		return nil
	})
}
