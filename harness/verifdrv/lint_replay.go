package verifdrv

import (
	"encoding/json"
	"fmt"
	"strings"
)

func init() {
	modes["lint-replay"] = lintReplay
}

// lintReplay: for every file TLC enumerated (callback policy "continue"), lint must print the message
// of every malformed line once, in file order, and "No errors found" exactly when there is none
// (and never with --silent).
func lintReplay(e *env) error {
	return e.eachCase(func(raw json.RawMessage) error {
		var c parserCase
		if err := json.Unmarshal(raw, &c); err != nil {
			return err
		}
		e.sum.Cases++
		cc := newConcretiser(e.rng, 2, 2, 2, 1)
		nl := "\n"
		if e.rng.Intn(3) == 0 {
			nl = "\r\n"
		}
		var texts []string
		var sb strings.Builder
		for _, l := range c.Lines {
			t := cc.lineText(l)
			texts = append(texts, t)
			sb.WriteString(t + nl)
		}
		var want []string
		for _, ev := range c.Cb {
			if ev.T != "err" {
				continue
			}
			t := texts[ev.Line-1]
			if ev.Kind == "badsyntax" {
				want = append(want, fmt.Sprintf("bad syntax on line %d, \"%s\".", ev.Line, t))
			} else {
				// the quoted value is the last blank-separated token with quotes / colons trimmed
				core := strings.Trim(t, "\t \n:\"-")
				q := strings.Trim(core[strings.LastIndexAny(core, "\t "):], "\t \n:\"")
				want = append(want, fmt.Sprintf("error converting \"%s\" to float on line %d \"%s\".", q, ev.Line, t))
			}
		}
		if len(want) > 0 {
			e.sum.Nontrivial++
		}
		for _, silent := range []bool{false, true} {
			args := []string{"lint", "log.yaml"}
			if silent {
				args = []string{"lint", "-s", "log.yaml"}
			}
			out := &failWriter{limit: -1}
			res := runInProc(args, map[string]fileSrc{"log.yaml": strSrc(sb.String())}, out)
			e.sum.Runs++
			rec := map[string]interface{}{"case": c, "input": sb.String(), "silent": silent}
			if res.Panicked != nil || res.TimedOut {
				e.mismatch("lint-panic", "cmd/hranoprovod-cli/internal/lint/lint.go", fmt.Sprintf("lint panics or hangs: %v", res.Panicked), rec)
				continue
			}
			got := strings.Split(strings.TrimSuffix(out.buf.String(), "\n"), "\n")
			if out.buf.Len() == 0 {
				got = nil
			}
			exp := append([]string{}, want...)
			if len(want) == 0 && !silent {
				exp = append(exp, "No errors found")
			}
			if strings.Join(got, "\n") != strings.Join(exp, "\n") {
				shape := "lint-messages"
				if len(got) > 0 && got[len(got)-1] == "No errors found" && len(want) > 0 {
					shape = "lint-no-errors-found-after-errors"
				}
				e.mismatch(shape, "cmd/hranoprovod-cli/internal/lint/lint.go", fmt.Sprintf("lint (silent=%v) printed %q, specification predicts %q (input %q)", silent, got, exp, sb.String()), rec)
			}
			if len(want) == 0 && res.Err != nil {
				e.mismatch("lint-status", "cmd/hranoprovod-cli/internal/lint/lint.go", fmt.Sprintf("lint fails with %v on a file without malformed lines", res.Err), rec)
			}
		}
		if e.sum.Cases%20000 == 5 {
			e.sample(map[string]interface{}{"input": sb.String(), "lint_prints": want})
		}
		return nil
	})
}
