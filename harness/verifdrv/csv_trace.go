package verifdrv

import (
	"encoding/json"
	"fmt"
	"sort"
	"time"
)

func init() {
	modes["csv-trace"] = csvTrace
}

func codePoints(s string) []int {
	out := []int{}
	for _, r := range s {
		out = append(out, int(r))
	}
	return out
}

// emitCsvTrace records one export (safe from several goroutines)
func (e *env) emitCsvTrace(kind string, dec int, out string, want [][2][]int) {
	e.mu.Lock()
	defer e.mu.Unlock()
	e.emitEv("Init", map[string]interface{}{"kind": kind, "dec": dec, "raw": codePoints(out)})
	e.emitEv("Rows", map[string]interface{}{"want": want})
	e.sum.Traces++
}

// csvTrace (C13, trace validation against Csv.tla): the bytes the real `csv log`, `csv database` and
// `csv database-resolved` print for enumerated logs and books (names with commas, quotes, non-ASCII text) are
// recorded as code points together with the rows the export must read back to:
//
//	{"ev":"Init","kind":"log|database|resolved","dec":3|2,"raw":[..code points..]}
//	{"ev":"Rows","want":[[[field 1],[field 2]],..]}
//
// TLC runs the RFC 4180 automaton of Csv.tla over the bytes: no error, exactly the wanted rows (first two fields
// equal, third a fixed-precision decimal), ISO dates for the log, rows sorted for the resolved book.
func csvTrace(e *env) error {
	stride := e.argInt("stride", 10)
	idx := 0
	// the process time zone must not move the dates: each case runs under one of these offsets (minutes east of UTC)
	saved := time.Local
	defer func() { time.Local = saved }()
	zones := []int{0, 120, -720, 840, 330, -210}
	return e.eachCase(func(raw json.RawMessage) error {
		idx++
		e.sum.Cases++
		if (idx+int(e.seed))%stride != 0 {
			return nil
		}
		c := &repCase{}
		if err := json.Unmarshal(raw, c); err != nil {
			return err
		}
		maxID := c.Element
		isRecipe := map[int]bool{}
		for _, r := range c.Book {
			isRecipe[r.Name] = true
			if r.Name > maxID {
				maxID = r.Name
			}
			for _, el := range r.Els {
				if el[0] > maxID {
					maxID = el[0]
				}
			}
		}
		for _, d := range c.Log {
			for _, en := range d.Es {
				if en[0] > maxID {
					maxID = en[0]
				}
			}
		}
		z := zones[(idx/stride)%len(zones)]
		time.Local = time.FixedZone(fmt.Sprintf("Z%+d", z), z*60)
		w := newWorld(e.rng, maxID, true)
		cc := &concretiser{rng: e.rng}
		x := &cmpCtx{e: e, c: c, w: w}
		x.book = w.bookText(c, cc)
		x.log = w.logText(c.Log, cc)
		type pair [2][]int
		emit := func(kind string, dec int, out string, want []pair) {
			e.emitEv("Init", map[string]interface{}{"kind": kind, "dec": dec, "raw": codePoints(out)})
			e.emitEv("Rows", map[string]interface{}{"want": want})
			e.sum.Traces++
			if len(want) >= 2 {
				e.sum.Nontrivial++
			}
		}
		if out, ok := x.run("csv", "log"); ok {
			want := []pair{}
			for _, r := range c.CsvLog {
				want = append(want, pair{codePoints(w.iso[r.Date]), codePoints(w.names[r.Name])})
			}
			emit("log", 3, out, want)
		}
		if out, ok := x.run("csv", "database"); ok {
			want := []pair{}
			for _, r := range c.Book {
				for _, el := range r.Els {
					want = append(want, pair{codePoints(w.names[r.Name]), codePoints(w.names[el[0]])})
				}
			}
			emit("database", 2, out, want)
		}
		nested := false
		for _, r := range c.Book {
			for _, el := range r.Els {
				if isRecipe[el[0]] {
					nested = true
				}
			}
		}
		if !nested {
			if out, ok := x.run("csv", "database-resolved"); ok {
				type row struct{ a, b string }
				var rows []row
				for _, r := range c.Book {
					seen := map[int]bool{}
					for _, el := range r.Els {
						if !seen[el[0]] {
							seen[el[0]] = true
							rows = append(rows, row{w.names[r.Name], w.names[el[0]]})
						}
					}
				}
				sort.Slice(rows, func(i, j int) bool {
					if rows[i].a != rows[j].a {
						return rows[i].a < rows[j].a
					}
					return rows[i].b < rows[j].b
				})
				want := []pair{}
				for _, r := range rows {
					want = append(want, pair{codePoints(r.a), codePoints(r.b)})
				}
				emit("resolved", 2, out, want)
			}
		}
		if idx%3000 == 0 {
			e.sample(map[string]interface{}{"log": x.log, "book": x.book})
		}
		return nil
	})
}
