package verifdrv

import (
	"fmt"
	"sort"
	"strings"
)

func init() {
	modes["agree-direct"] = agreeDirect
}

// agreeDirect (C07): the relations between reports evaluated directly on pairs of REAL outputs, with no
// reference model in between, on random logs over random nested books (integer data: every printed
// figure is exact)
func agreeDirect(e *env) error {
	logs := e.argInt("logs", 100)
	for t := 0; t < logs; t++ {
		var g genBook
		for {
			g = genRandomBook(e.rng)
			if absBound(g) < 20000 {
				break
			}
		}
		names := pickNames(e.rng, plainPool, traceNames)
		cc := &concretiser{rng: e.rng}
		var bk strings.Builder
		isRecipe := map[string]bool{}
		for _, r := range g.Book {
			bk.WriteString(names[r.Name] + ":\n")
			isRecipe[names[r.Name]] = true
			for _, in := range r.Ingr {
				bk.WriteString(cc.entryLine(names[in[0]], fmt.Sprint(in[1])) + "\n")
			}
		}
		var lg strings.Builder
		logged := map[string]bool{}
		dates := []string{}
		date := 1
		// every relation is evaluated under a period (global flags), which all the reports must honour alike
		pb, pe := 0, 99
		if t%2 == 1 {
			pb, pe = 3+e.rng.Intn(4), 6+e.rng.Intn(6)
		}
		// every fourth log: a date format with a time of day and several records per calendar day
		withTime := t%4 == 2
		for d := 0; d < 1+e.rng.Intn(6); d++ {
			date += 1 + e.rng.Intn(2)
			ds := fmt.Sprintf("2021/09/%02d", date)
			if withTime {
				if d%2 == 1 {
					date-- // the same calendar day again, later in the day
				}
				ds = fmt.Sprintf("2021/09/%02d %02d:%02d", date, (7*d)%24, (13*d)%60)
			}
			inPeriod := date >= pb && date <= pe
			if inPeriod {
				dates = append(dates, ds)
			}
			lg.WriteString(ds + ":\n")
			for i := e.rng.Intn(6); i > 0; i-- {
				f := names[1+e.rng.Intn(traceNames)]
				if e.rng.Intn(2) == 0 {
					f = names[g.Book[e.rng.Intn(len(g.Book))].Name]
				}
				if inPeriod {
					logged[f] = true
				}
				lg.WriteString(cc.entryLine(f, fmt.Sprint(e.rng.Intn(9)-3)) + "\n")
			}
		}
		x := &cmpCtx{e: e, c: nil, w: &world{names: names, uq: 1, ua: 1}, book: bk.String(), log: lg.String()}
		md := []string{"--maxdepth", fmt.Sprint(g.N)}
		if withTime {
			md = append(md, "--date-format", "2006/01/02 15:04")
			if pb > 0 {
				md = append(md, "-b", fmt.Sprintf("2021/09/%02d 00:00", pb), "-e", fmt.Sprintf("2021/09/%02d 23:59", pe))
			}
		} else if pb > 0 {
			md = append(md, "-b", fmt.Sprintf("2021/09/%02d", pb), "-e", fmt.Sprintf("2021/09/%02d", pe))
		}
		run := func(args ...string) (string, bool) {
			out := &failWriter{limit: -1}
			res := runInProc(append(append([]string{}, md...), args...), map[string]fileSrc{"food.yaml": strSrc(x.book), "log.yaml": strSrc(x.log)}, out)
			e.sum.Runs++
			return out.buf.String(), res.Err == nil && res.Panicked == nil
		}
		regOut, ok := run("--no-color", "reg")
		if !ok {
			continue // book too deep or cyclic for its limit: every resolving command fails (C11)
		}
		e.sum.Nontrivial++
		site := "cmd/hranoprovod-cli"
		days, err := parseRegister(regOut, "default")
		if err != nil {
			x.bad("register-unparsable", site, err.Error())
			continue
		}
		// 1. period totals = sum of the register's daily totals
		sum := map[string][3]int64{}
		for _, d := range days {
			for _, tt := range d.Totals {
				s := sum[tt.Name]
				sum[tt.Name] = [3]int64{s[0] + tt.Pos, s[1] + tt.Neg, s[2] + tt.Sum}
			}
		}
		totOut, _ := run("report", "totals")
		tot, err := parseTotalsReport(totOut)
		same := err == nil && len(tot) == len(sum)
		for _, r := range tot {
			if sum[r.Name] != [3]int64{r.Pos, r.Neg, r.Sum} {
				same = false
			}
		}
		if !same {
			x.bad("totals-differ-from-register", site, fmt.Sprintf("report totals %+v; the sums of the register's daily totals are %v", tot, sum))
		}
		// 2./3. per element: totals = sum of reg -s rows; bal -s grand total = totals.sum
		for i, r := range tot {
			if i >= 4 {
				break
			}
			so, ok := run("reg", "-s", r.Name)
			rows, err := parseSingle(so, 10)
			var p, n int64
			for _, sr := range rows {
				p += sr.Pos
				n += sr.Neg
			}
			if !ok || err != nil || p != r.Pos || -n != r.Neg {
				x.bad("totals-differ-from-single-element-register", site, fmt.Sprintf("element %q: report totals (%d, %d), the reg -s rows add up to (%d, %d)", r.Name, r.Pos, r.Neg, p, -n))
			}
			bo, ok := run("bal", "-s", r.Name)
			_, bt, err := parseBalance(bo)
			if !ok || err != nil || bt == nil || bt.Val != r.Sum {
				x.bad("totals-differ-from-balance-single", site, fmt.Sprintf("element %q: report totals sum %d, bal -s grand total %+v", r.Name, r.Sum, bt))
			}
		}
		// 4. quantities per food = balance rows = sums of the csv log rows
		qo, _ := run("report", "quantity")
		qrows, _ := parseNumTabName(qo)
		bo, _ := run("bal")
		brows, _, _ := parseBalance(bo)
		co, _ := run("csv", "log")
		crecs, cerr := parseCSVStrict(co)
		csum := map[string]int64{}
		for _, r := range crecs {
			if len(r) == 3 {
				v, _ := parseMilli(r[2])
				csum[r[1]] += v
			}
		}
		bal := map[string]int64{}
		for _, r := range brows {
			if r.Level == 0 {
				bal[r.Label] = r.Val
			}
		}
		okq := cerr == nil && len(qrows) == len(csum) && len(qrows) == len(bal)
		for _, r := range qrows {
			if csum[r.Name] != r.Val || bal[r.Name] != r.Val {
				okq = false
			}
		}
		if !okq {
			x.bad("quantity-differs-from-balance-or-csv", site, fmt.Sprintf("report quantity %+v; balance %v; csv log sums %v", qrows, bal, csum))
		}
		// 6. summary of a day = the register for that day
		for i, ds := range dates {
			if i >= 2 {
				break
			}
			arg := ds
			if withTime {
				arg = ds[:10] + " 00:00"
			}
			so, ok := run("--no-color", "summary", arg)
			sd, err := parseSummary(so)
			var want []regDay
			for _, d := range days {
				if d.Date == ds || (withTime && len(d.Date) >= 10 && d.Date[:10] == ds[:10]) {
					want = append(want, d)
				}
			}
			oks := ok && err == nil && len(sd) == len(want)
			for k := 0; oks && k < len(want); k++ {
				oks = len(sd[k].Foods) == len(want[k].Foods) && len(sd[k].Totals) == len(want[k].Totals)
				for j := 0; oks && j < len(want[k].Foods); j++ {
					oks = sd[k].Foods[j].Name == want[k].Foods[j].Name && sd[k].Foods[j].Val == want[k].Foods[j].Qty
				}
				for j := 0; oks && j < len(want[k].Totals); j++ {
					oks = sd[k].Totals[j].Name == want[k].Totals[j].Name && sd[k].Totals[j].Val == want[k].Totals[j].Pos
				}
			}
			if !oks {
				x.bad("summary-differs-from-register", site, fmt.Sprintf("summary %s shows %+v, the register shows %+v", ds, sd, want))
			}
		}
		// 7. unresolved = logged foods the book does not define
		uo, _ := run("report", "unresolved")
		var want []string
		for f := range logged {
			if !isRecipe[f] {
				want = append(want, f)
			}
		}
		sort.Strings(want)
		got := []string{}
		if uo != "" {
			got = strings.Split(strings.TrimSuffix(uo, "\n"), "\n")
		}
		if strings.Join(got, "\n") != strings.Join(want, "\n") {
			x.bad("unresolved-differs-from-files", site, fmt.Sprintf("report unresolved %q; logged and not defined: %q", got, want))
		}
		if t < 2 {
			e.sample(map[string]interface{}{"book": x.book, "log": x.log})
		}
	}
	return nil
}
