package verifdrv

import (
	"fmt"
	"io"
	"strings"
)

func init() {
	modes["parser-trace"] = parserTrace
}

func absLineJSON(l absLine) map[string]interface{} {
	switch l.K {
	case "head":
		return map[string]interface{}{"k": l.K, "h": l.H}
	case "note", "badsyntax", "badnumber":
		return map[string]interface{}{"k": l.K, "t": l.T}
	case "entry":
		return map[string]interface{}{"k": l.K, "n": l.N, "v": l.V}
	}
	return map[string]interface{}{"k": l.K}
}

// genFile draws a random abstract file; bad = per-mille probability of a malformed line
func genFile(e *env, maxLines, bad int, nHeads, nNames, nVals, nNotes int) []absLine {
	n := e.rng.Intn(maxLines + 1)
	var out []absLine
	for len(out) < n {
		r := e.rng.Intn(1000)
		switch {
		case r < bad/2:
			out = append(out, absLine{K: "badsyntax", T: 1})
		case r < bad:
			out = append(out, absLine{K: "badnumber", T: 1})
		case r < bad+80:
			out = append(out, absLine{K: "blank"})
		case r < bad+140:
			out = append(out, absLine{K: "comment"})
		case r < bad+300:
			out = append(out, absLine{K: "head", H: 1 + e.rng.Intn(nHeads)})
		case r < bad+380:
			out = append(out, absLine{K: "note", T: 1 + e.rng.Intn(nNotes)})
		default:
			out = append(out, absLine{K: "entry", N: 1 + e.rng.Intn(nNames), V: 1 + e.rng.Intn(nVals)})
		}
	}
	return out
}

// abstractEvents maps the concrete callbacks back to ids; "" on success
func (c *concretiser) abstractEvent(g pEvent) (map[string]interface{}, string, string) {
	idOf := func(list []string, s string) int {
		for i := 1; i < len(list); i++ {
			if list[i] == s {
				return i
			}
		}
		return 0
	}
	if g.T == "node" {
		h := idOf(c.heads, g.Header)
		if h == 0 {
			return nil, "", fmt.Sprintf("record with unknown heading %q", g.Header)
		}
		els := [][]int{}
		for _, el := range g.Elements {
			n := idOf(c.names, el.Name)
			v := 0
			for i := 1; i < len(c.vals); i++ {
				if w, _ := exactFloat(c.vals[i]); sameFloat(w, el.Value) {
					v = i
				}
			}
			if n == 0 || v == 0 {
				return nil, "", fmt.Sprintf("entry (%q, %v) of record %q is none of the file's names/values", el.Name, el.Value, g.Header)
			}
			els = append(els, []int{n, v})
		}
		notes := []int{}
		for _, nt := range g.Notes {
			t := 0
			for i := 1; i < len(c.notes); i++ {
				f := noteForms[c.notes[i]]
				if nt == [2]string{f.name, f.value} {
					t = i
				}
			}
			if t == 0 {
				return nil, "", fmt.Sprintf("note %q of record %q is none of the file's notes", nt, g.Header)
			}
			notes = append(notes, t)
		}
		return map[string]interface{}{"header": h, "elements": els, "notes": notes}, "Node", ""
	}
	kind := map[string]string{"syntax": "badsyntax", "number": "badnumber"}[g.ErrKind]
	if kind == "" {
		return nil, "", fmt.Sprintf("unexpected error event %+v", g)
	}
	return map[string]interface{}{"kind": kind, "line": g.LineNo}, "Err", ""
}

// distinct values/notes so that abstraction is a function
func newTraceConcretiser(e *env, nHeads, nNames, nVals, nNotes int) *concretiser {
	c := newConcretiser(e.rng, nHeads, nNames, nVals, 0)
	c.notes = make([]int, nNotes+1)
	for i, p := range e.rng.Perm(len(noteForms))[:nNotes] {
		c.notes[i+1] = p
	}
	// value literals must denote distinct numbers ("1", "1." and "1E2"/"100" collide)
	seen := map[float64]bool{}
	k := 1
	for _, p := range e.rng.Perm(len(numLits)) {
		if k > nVals {
			break
		}
		f, _ := exactFloat(numLits[p])
		if seen[f] {
			continue
		}
		seen[f] = true
		c.vals[k] = numLits[p]
		k++
	}
	return c
}

// parserTrace records executions of the real callback parser on long random files as traces for
// Trace_Parser.tla.  args: files, bad (per mille of malformed lines), faults (0/1), maxlines
func parserTrace(e *env) error {
	files := e.argInt("files", 100)
	bad := e.argInt("bad", 0)
	faults := e.argInt("faults", 0)
	maxLines := e.argInt("maxlines", 60)
	for f := 0; f < files; f++ {
		ml := maxLines
		if f%10 == 0 {
			ml = maxLines * 3
		}
		if f%25 == 3 {
			ml = maxLines * 14 // files well beyond the scanner's 4096-byte buffer
		}
		lines := genFile(e, ml, bad, 5, 10, 10, 4)
		cc := newTraceConcretiser(e, 5, 10, 10, 4)
		pol, k := "continue", 0
		if bad > 0 || faults > 0 {
			switch e.rng.Intn(4) {
			case 0:
				pol = "stopOnError"
			case 1:
				pol, k = "stopAtNode", 1+e.rng.Intn(3)
			case 2:
				pol = "stopOnError"
			}
		}
		nl := "\n"
		if e.rng.Intn(3) == 0 {
			nl = "\r\n"
		}
		fault := map[string]interface{}{"at": 0}
		faultAt, faultMid := 0, false
		var part absLine
		if faults > 0 && e.rng.Intn(3) > 0 {
			faultAt = 1 + e.rng.Intn(len(lines)+1)
			faultMid = faultAt <= len(lines) && e.rng.Intn(2) == 0
			if faultMid {
				for {
					if g := genFile(e, 2, 300, 5, 10, 10, 4); len(g) > 0 {
						part = g[0]
						break
					}
				}
				fault = map[string]interface{}{"at": faultAt, "mid": true, "part": absLineJSON(part)}
			} else {
				fault = map[string]interface{}{"at": faultAt, "mid": false, "part": map[string]interface{}{"k": "blank"}}
			}
		}
		var sb strings.Builder
		failAt := -1
		for i, l := range lines {
			if faultAt == i+1 {
				if faultMid {
					sb.WriteString(cc.lineText(part))
				}
				failAt = sb.Len()
				break
			}
			sb.WriteString(cc.lineText(l))
			if i < len(lines)-1 || e.rng.Intn(2) == 0 || faultAt == len(lines)+1 {
				sb.WriteString(nl)
			}
		}
		if faultAt == len(lines)+1 {
			failAt = sb.Len()
		}
		data := sb.String()
		var rd io.Reader = strings.NewReader(data)
		if faultAt > 0 {
			rd = &faultReader{data: []byte(data), failAt: failAt, style: e.rng.Intn(3), err: fmt.Errorf("disk: %w", errInjected)}
		} else if e.rng.Intn(5) == 0 {
			rd = &faultReader{data: []byte(data), failAt: -1, style: 2}
		}
		al := make([]map[string]interface{}, len(lines))
		hasEntry := false
		for i, l := range lines {
			al[i] = absLineJSON(l)
			if l.K == "entry" {
				hasEntry = true
			}
		}
		if hasEntry {
			e.sum.Nontrivial++
		}
		got, ret, p := runPolicy(rd, pol, k)
		e.sum.Runs++
		rec := map[string]interface{}{"input": data, "policy": pol, "k": k, "failAt": failAt}
		if p != nil {
			e.mismatch("parser-panic", "parser/parser.go", fmt.Sprintf("panic: %v", p), rec)
			continue
		}
		e.emitEv("Init", map[string]interface{}{"lines": al, "policy": map[string]interface{}{"p": pol, "k": k}, "fault": fault, "id": f})
		okTrace := true
		for _, g := range got {
			m, ev, bad := cc.abstractEvent(g)
			if bad != "" {
				e.mismatch("parser-abstraction", "parser/parser.go", bad+fmt.Sprintf(" (input %q)", data), rec)
				okTrace = false
				break
			}
			e.emitEv(ev, m)
		}
		var r map[string]interface{}
		switch {
		case ret == nil:
			r = map[string]interface{}{"t": "nil"}
		case ret == errCallback:
			r = map[string]interface{}{"t": "cbErr"}
		case isInjected(ret):
			r = map[string]interface{}{"t": "ioErr"}
		default:
			ev := errEvent(ret)
			kind := map[string]string{"syntax": "badsyntax", "number": "badnumber"}[ev.ErrKind]
			if kind == "" {
				kind = "other:" + ret.Error()
			}
			r = map[string]interface{}{"t": "err", "kind": kind, "line": ev.LineNo}
		}
		if !okTrace {
			r = map[string]interface{}{"t": "abstraction-failed"}
		}
		e.emitEv("Exit", map[string]interface{}{"ret": r})
		e.sum.Traces++
		if f < 2 {
			e.sample(map[string]interface{}{"input": data, "policy": pol, "fault": fault})
		}
	}
	return nil
}
