package verifdrv

import (
	"fmt"
	"time"
)

func init() {
	modes["walk-trace"] = walkTrace
}

func (b boundSpec) toJSON() map[string]interface{} {
	if b.K == "date" {
		return map[string]interface{}{"k": "date", "d": b.D}
	}
	return map[string]interface{}{"k": b.K}
}

// walkTrace (C06, beyond the exhaustive bound): random logs of 5..40 headings over a 70-day window (any order,
// repeated dates), random begin / end bounds (dates, keywords, absent) at random positions, random --today and
// zone offset; the headings the real commands show are recorded
//
//	{"ev":"Init","log":[day,..],"kind":..,"bG":..,"eG":..,"bS":..,"eS":..,"arg":..,"today":d,"zone":minutes}
//	{"ev":"Walk","selected":[index,..]}
//
// and Trace_Walk.tla accepts them iff that is the selection Walk.tla computes (instants, zone, lineage override).
func walkTrace(e *env) error {
	n := e.argInt("logs", 200)
	saved := time.Local
	defer func() { time.Local = saved }()
	layout := "2006/01/02"
	rng := e.rng
	none := boundSpec{K: "none"}
	randBound := func(today int) boundSpec {
		switch rng.Intn(7) {
		case 0:
			return boundSpec{K: "today"}
		case 1:
			return boundSpec{K: "yesterday"}
		case 2:
			return boundSpec{K: "last7"}
		case 3:
			return boundSpec{K: "last30"}
		case 4:
			if rng.Intn(3) == 0 {
				// an "open" bound: a date far in the future or the past (31 Dec 2999, 1 Jan 1000; TLC computes in 32-bit integers: minutes since the epoch must fit)
				return boundSpec{K: "date", D: []int{357576, -372908}[rng.Intn(2)]}
			}
			return boundSpec{K: "date", D: 1 + rng.Intn(70)}
		default:
			return boundSpec{K: "date", D: 1 + rng.Intn(70)}
		}
	}
	for t := 0; t < n; t++ {
		cnt := 5 + rng.Intn(36)
		c := walkCase{Kind: "period", BG: none, EG: none, BS: none, ES: none, Arg: none}
		c.Today = 36 + rng.Intn(31)
		for i := 0; i < cnt; i++ {
			d := 1 + rng.Intn(70)
			if rng.Intn(4) == 0 {
				d = c.Today - []int{0, 1, 7, 30, 6, 8, 29, 31, 2}[rng.Intn(9)] // around the keyword boundaries
			}
			if rng.Intn(6) == 0 && i > 0 {
				d = c.Log[rng.Intn(i)] // a repeated date
			}
			c.Log = append(c.Log, d)
		}
		c.Zone = (rng.Intn(105) - 48) * 15 // -720 .. +840 minutes
		if rng.Intn(5) == 0 {
			c.Kind = "summary"
			c.Arg = randBound(c.Today)
			if c.Arg.K == "date" && rng.Intn(2) == 0 {
				c.Arg.D = c.Log[rng.Intn(len(c.Log))]
			}
		} else {
			place := func() (g, s boundSpec) {
				g, s = none, none
				switch rng.Intn(5) {
				case 0:
				case 1, 2:
					g = randBound(c.Today)
				case 3:
					s = randBound(c.Today)
				case 4:
					g, s = randBound(c.Today), randBound(c.Today)
				}
				return
			}
			c.BG, c.BS = place()
			c.EG, c.ES = place()
		}
		time.Local = time.FixedZone(fmt.Sprintf("Z%+d", c.Zone), c.Zone*60)
		log := walkLog(c.Log, nil, layout)
		files := map[string]fileSrc{"log.yaml": strSrc(log), "food.yaml": strSrc("")}
		rec := map[string]interface{}{"case": c, "log": log}
		global := []string{"--no-color", "--no-database", "--today", dayStr(c.Today, layout)}
		var selected []int
		okRun := true
		if c.Kind == "summary" {
			args := append(append([]string{}, global...), "summary", c.Arg.str(layout))
			out := &failWriter{limit: -1}
			res := runInProc(args, files, out)
			e.sum.Runs++
			if res.Err != nil || res.Panicked != nil {
				e.mismatch("period-command-fails", "cmd/hranoprovod-cli/internal/summary", fmt.Sprintf("%v fails: %v %v", args, res.Err, res.Panicked), rec)
				continue
			}
			selected = shownIndices(out.buf.String())
		} else {
			for k, cmd := range [][]string{{"csv", "log"}, {"reg"}, {"print"}} {
				args := append([]string{}, global...)
				if c.BG.K != "none" {
					args = append(args, "-b", c.BG.str(layout))
				}
				if c.EG.K != "none" {
					args = append(args, "-e", c.EG.str(layout))
				}
				args = append(args, cmd...)
				if c.BS.K != "none" {
					args = append(args, "-b", c.BS.str(layout))
				}
				if c.ES.K != "none" {
					args = append(args, "-e", c.ES.str(layout))
				}
				out := &failWriter{limit: -1}
				res := runInProc(args, files, out)
				e.sum.Runs++
				if res.Err != nil || res.Panicked != nil {
					e.mismatch("period-command-fails", "cmd/hranoprovod-cli", fmt.Sprintf("%v fails: %v %v", args, res.Err, res.Panicked), rec)
					okRun = false
					break
				}
				got := shownIndices(out.buf.String())
				if k == 0 {
					selected = got
				} else if !sameInts(got, selected) {
					e.mismatch("period-selects-wrong-days", "filter/filter.go", fmt.Sprintf("%v shows headings %v, csv log under the same period shows %v", args, got, selected), rec)
					okRun = false
					break
				}
			}
		}
		if !okRun {
			continue
		}
		if selected == nil {
			selected = []int{}
		}
		e.emitEv("Init", map[string]interface{}{"log": c.Log, "kind": c.Kind, "bG": c.BG.toJSON(), "eG": c.EG.toJSON(), "bS": c.BS.toJSON(), "eS": c.ES.toJSON(),
			"arg": c.Arg.toJSON(), "today": c.Today, "zone": c.Zone})
		e.emitEv("Walk", map[string]interface{}{"selected": selected})
		e.sum.Traces++
		if len(selected) > 0 && len(selected) < len(c.Log) {
			e.sum.Nontrivial++
		}
		if t%100 == 0 {
			e.sample(rec)
		}
	}
	return nil
}
