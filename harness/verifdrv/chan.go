package verifdrv

import (
	"fmt"
	"io"
	"math/rand"
	"os"
	"path/filepath"
	"runtime"
	"runtime/debug"
	"strings"
	"syscall"
	"time"

	shared "github.com/aquilax/hranoprovod-cli/v3"
	"github.com/aquilax/hranoprovod-cli/v3/parser"
)

func init() {
	modes["chan-trace"] = chanTrace
}

// jitterReader hands out the data in small pieces with scheduling points in between, so that the
// producer goroutine reaches its sends at varying moments relative to the consumer
type jitterReader struct {
	data   []byte
	pos    int
	rng    *rand.Rand
	failAt int // -1 never; else return errInjected at that offset
}

func jitter(rng *rand.Rand) {
	switch rng.Intn(6) {
	case 0:
		runtime.Gosched()
	case 1:
		time.Sleep(time.Duration(rng.Intn(40)) * time.Microsecond)
	case 2:
		runtime.Gosched()
		runtime.Gosched()
	}
}

func (j *jitterReader) Read(p []byte) (int, error) {
	jitter(j.rng)
	limit := len(j.data)
	if j.failAt >= 0 && j.failAt < limit {
		limit = j.failAt
	}
	if j.pos >= limit {
		if j.failAt >= 0 {
			return 0, errInjected
		}
		return 0, io.EOF
	}
	n := 1 + j.rng.Intn(24)
	if n > limit-j.pos {
		n = limit - j.pos
	}
	if n > len(p) {
		n = len(p)
	}
	copy(p, j.data[j.pos:j.pos+n])
	j.pos += n
	return n, nil
}

// chanTrace: the real channel adapter against a consumer following either policy, many schedules per
// input class; one trace per run for Trace_ChanParser.tla
func chanTrace(e *env) error {
	runs := e.argInt("runs", 300)
	scratch := os.Getenv("VERIF_SCRATCH")
	// a Parser value whose previous run has completely finished (consumer drained it, producer exited) may be used
	// again for the next input: it must behave like a fresh one
	var reusable parser.Parser
	haveReusable := false
	var reusableCfg parser.Config
	reused, fifos := 0, 0
	defer func() { e.sum.Extra["parser_values_reused"] = reused; e.sum.Extra["named_pipes_read"] = fifos }()
	for r := 0; r < runs; r++ {
		// scenario: n records, then nothing / a malformed line / a read failure
		nNodes := e.rng.Intn(5)
		final := []string{"nil", "cb", "io"}[e.rng.Intn(3)]
		entry := []string{"stream", "stream", "fileOk", "fileOpenFails"}[e.rng.Intn(4)]
		policy := []string{"stop", "drain"}[e.rng.Intn(2)]
		if entry == "fileOk" && final == "io" {
			final = "nil" // a real file cannot be made to fail mid-read here
		}
		if entry == "fileOpenFails" {
			nNodes, final, policy = 0, "io", "stop"
		}
		var sb strings.Builder
		for i := 1; i <= nNodes; i++ {
			fmt.Fprintf(&sb, "2021/01/%02d:\n  a: %d\n  b c: 2\n", i, i)
		}
		items := make([]string, nNodes)
		for i := range items {
			items[i] = "node"
		}
		failAt := -1
		switch final {
		case "cb":
			// a malformed line in one more record; further records after it must never be seen
			bad := []string{"  broken", "  pear: 1,5", "\tname: x1", "- \"q\":"}[e.rng.Intn(4)]
			sb.WriteString("2021/02/01:\n  x: 1\n" + bad + "\n2021/02/02:\n  y: 2\n")
			if e.rng.Intn(3) == 0 {
				// a long tail after the malformed line (several reads of bufio's buffer that the parser never asks for)
				for i := 0; i < 400+e.rng.Intn(800); i++ {
					fmt.Fprintf(&sb, "2021/03/%02d:\n  tail food %d: %d\n", 1+i%28, i, i)
				}
			}
			items = append(items, "err")
		case "io":
			sb.WriteString("2021/03/01:\n  pending: 1\n")
			failAt = sb.Len()
		}
		data := sb.String()
		if e.rng.Intn(12) == 0 {
			data = "\xef\xbb\xbf" + data // a byte order mark: whatever the parser makes of it, both APIs must agree
			if failAt >= 0 {
				failAt += 3
			}
		}
		// a parser configuration with another comment character, with comment lines in that character
		pcfg := parser.NewDefaultConfig()
		if e.rng.Intn(3) == 0 {
			pcfg.CommentChar = []uint8{';', '|', '~', '%', '$', '!'}[e.rng.Intn(6)]
			cch := string(rune(pcfg.CommentChar))
			data = cch + " a comment\n" + strings.Replace(data, ":\n", ":\n  "+cch+" note: in the middle\n", 1)
			if failAt >= 0 {
				failAt = len(data)
			}
		}
		// what the callback parser reports for this input and configuration is the reference (C18's statement):
		// the records before its first error, then nil / that error / a read error
		{
			var cbItems []string
			cbFinal := "nil"
			var rd0 io.Reader = strings.NewReader(data)
			if failAt >= 0 {
				rd0 = &faultReader{data: []byte(data), failAt: failAt, style: 1, err: errInjected}
			}
			ret := parser.ParseStreamCallback(rd0, pcfg, func(n *shared.ParserNode, err error) (bool, error) {
				if err != nil {
					cbItems = append(cbItems, "err")
					return true, err
				}
				cbItems = append(cbItems, "node")
				return false, nil
			})
			if ret != nil {
				cbFinal = "io"
				if len(cbItems) > 0 && cbItems[len(cbItems)-1] == "err" {
					cbFinal = "cb"
				}
			}
			items, final = cbItems, cbFinal
			if items == nil {
				items = []string{}
			}
		}
		p := parser.NewParser(pcfg)
		if haveReusable && reusableCfg == pcfg && e.rng.Intn(2) == 0 {
			p = reusable
			reused++
		}
		haveReusable = false
		exited := make(chan struct{})
		// the producer goroutine: a panic of the code under test is a violation, not the end of the driver
		producer := func(fn func()) {
			defer close(exited)
			defer func() {
				if pv := recover(); pv != nil {
					e.mismatch("panic-in-code-under-test", "parser/parser.go", fmt.Sprintf("the producer goroutine panics: %v", pv), map[string]interface{}{"input": data, "entry": entry, "policy": policy, "stack": string(debug.Stack())})
				}
			}()
			fn()
		}
		switch entry {
		case "stream":
			rd := &jitterReader{data: []byte(data), rng: rand.New(rand.NewSource(e.rng.Int63())), failAt: failAt}
			go producer(func() { p.ParseStream(rd) })
		case "fileOk":
			path := filepath.Join(scratch, "chan-input.yaml")
			if r%3 == 0 {
				// a named pipe: a file whose size is not known in advance
				path = filepath.Join(scratch, fmt.Sprintf("chan-fifo-%d", r))
				if err := syscall.Mkfifo(path, 0o600); err == nil {
					fifos++
					go func(path, data string) {
						if f, err := os.OpenFile(path, os.O_WRONLY, 0); err == nil {
							io.WriteString(f, data)
							f.Close()
						}
						os.Remove(path)
					}(path, data)
				} else {
					path = filepath.Join(scratch, "chan-input.yaml")
					writeFile(path, data)
				}
			} else {
				writeFile(path, data)
			}
			go producer(func() { p.ParseFile(path) })
		case "fileOpenFails":
			go producer(func() { p.ParseFile(filepath.Join(scratch, "no-such-dir", "missing.yaml")) })
		}
		e.emitEv("Init", map[string]interface{}{"items": items, "final": final, "entry": entry, "policy": policy, "id": r})
		crng := rand.New(rand.NewSource(e.rng.Int63()))
		nodes := 0
		returned := false
		deadline := time.After(10 * time.Second)
	loop:
		for {
			jitter(crng)
			select {
			case n := <-p.Nodes:
				nodes++
				_ = n
				e.emitEv("Recv", map[string]interface{}{"ch": "Nodes", "i": nodes})
			case <-p.Errors:
				e.emitEv("Recv", map[string]interface{}{"ch": "Errors", "i": 0})
				if policy == "drain" && r%6 == 0 {
					time.Sleep(25 * time.Millisecond) // a consumer that is slow to come back for Done
				}
				if policy == "stop" {
					returned = true
					break loop
				}
			case <-p.Done:
				e.emitEv("Recv", map[string]interface{}{"ch": "Done", "i": 0})
				returned = true
				break loop
			case <-deadline:
				break loop
			}
		}
		e.sum.Runs++
		if returned {
			e.emitEv("ConsumerReturned", map[string]interface{}{})
		} else {
			e.mismatch("chan-consumer-hangs", "parser/parser.go", fmt.Sprintf("the consumer loop (%s) received nothing for 10 s on input %q", policy, data), map[string]interface{}{"input": data, "policy": policy, "entry": entry})
			e.emitEv("ConsumerStuck", map[string]interface{}{})
		}
		if policy == "drain" && returned {
			select {
			case <-exited:
				e.emitEv("ProducerExited", map[string]interface{}{})
				reusable, reusableCfg, haveReusable = p, pcfg, true
			case <-time.After(3 * time.Second):
				e.emitEv("ProducerBlocked", map[string]interface{}{})
			}
		}
		if final != "nil" {
			e.sum.Nontrivial++
		}
		e.sum.Traces++
		if r < 2 {
			e.sample(map[string]interface{}{"input": data, "final": final, "entry": entry, "policy": policy})
		}
	}
	return nil
}
