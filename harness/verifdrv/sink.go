package verifdrv

import (
	"fmt"
	"io"
	"os"
	"regexp"
	"strings"
	"syscall"
)

func init() {
	modes["sink-enum"] = sinkEnum
}

// recWriter is a failWriter that records every Write call
type recWriter struct {
	failWriter
	calls [][3]int // n, took, ok(1/0)
}

func (w *recWriter) Write(p []byte) (int, error) {
	n, err := w.failWriter.Write(p)
	ok := 1
	if err != nil {
		ok = 0
	}
	w.calls = append(w.calls, [3]int{len(p), n, ok})
	return n, err
}

func longLog(days int) string {
	var sb strings.Builder
	for d := 0; d < days; d++ {
		fmt.Fprintf(&sb, "2021/%02d/%02d:\n  a: %d\n  food1: 2\n  some/category/of food %d: 1.5\n  zz: -3\n", 1+d/28, 1+d%28, d+1, d%17)
	}
	return sb.String()
}

// sinkEnum: fault enumeration for C17.  For every command shape and two inputs (a small report and one
// that crosses bufio's 4096-byte buffer several times) the sink fails from byte offset k, for every k
// (small) or a boundary-heavy sample (large); the command must fail whenever a byte was lost and
// succeed with the identical bytes when nothing was.
func sinkEnum(e *env) error {
	inputs := []struct{ name, book, log string }{
		{"small", fixedBook, fixedLog},
		{"large", fixedBook, longLog(e.argInt("days", 120))},
		// a food name of 5000 bytes: the first write of several reports is larger than bufio's buffer and goes straight to the sink
		{"longname", fixedBook, "2021/01/01:\n  " + strings.Repeat("A", 5000) + "/x: 1\n  b: 2\n"},
		// malformed lines: every command fails on this log except lint, which lists its findings - a list that can be lost too
		{"malformed", fixedBook, "2021/01/01:\n  a: 1\n  broken\n  b: x1\n# comment\n  c 2\n2021/01/02:\n  nosep\n  d: 1,5\n"},
	}
	offsets := 0
	for _, in := range inputs {
		for _, args := range crashShapes {
			files := func() map[string]fileSrc {
				return map[string]fileSrc{"food.yaml": strSrc(in.book), "log.yaml": strSrc(in.log)}
			}
			full := &recWriter{failWriter: failWriter{limit: -1}}
			res := runInProc(args, files(), full)
			if res.Err != nil || res.Panicked != nil || res.TimedOut {
				continue // the command fails on this input anyway (bad regexp, depth limit ...)
			}
			want := full.buf.String()
			L := len(want)
			var ks []int
			if L <= 400 {
				for k := 0; k < L; k++ {
					ks = append(ks, k)
				}
			} else {
				seen := map[int]bool{}
				add := func(k int) {
					if k >= 0 && k < L && !seen[k] {
						seen[k] = true
						ks = append(ks, k)
					}
				}
				for _, k := range []int{0, 1, 2, 100, 4095, 4096, 4097, 8191, 8192, 8193, 12287, 12288, 12289, L - 4097, L - 4096, L - 3, L - 2, L - 1} {
					add(k)
				}
				for k := 13; k < L; k += 97 + e.rng.Intn(5) {
					add(k)
				}
			}
			ks = append(ks, L) // the sink never fails: must succeed with the same bytes
			for _, k := range ks {
				w := &recWriter{failWriter: failWriter{limit: k, partial: k%2 == 0}}
				r := runInProc(args, files(), w)
				e.sum.Runs++
				offsets++
				if k < L {
					e.sum.Nontrivial++
				}
				status := 0
				if r.Err != nil {
					status = 1
				}
				e.emitEv("Init", map[string]interface{}{"total": L, "limit": k, "cmd": strings.Join(args, " "), "input": in.name})
				for _, c := range w.calls {
					e.emitEv("SinkWrite", map[string]interface{}{"n": c[0], "took": c[1], "ok": c[2] == 1})
				}
				e.emitEv("Exit", map[string]interface{}{"status": status})
				e.sum.Traces++
				rec := map[string]interface{}{"cmd": args, "input": in.name, "limit": k, "report_bytes": L, "log": trunc(in.log)}
				switch {
				case r.Panicked != nil:
					e.mismatch("cli-panic", "cmd/hranoprovod-cli", fmt.Sprintf("%v panics with the sink failing at byte %d: %v", args, k, r.Panicked), rec)
				case k < L && r.Err == nil:
					e.mismatch("lost-output-reported-as-success", "cmd/hranoprovod-cli", fmt.Sprintf("%v (%s input): sink fails at byte %d of %d, command returns nil", args, in.name, k, L), rec)
				case k == L && r.Err != nil:
					e.mismatch("complete-output-reported-as-failure", "cmd/hranoprovod-cli", fmt.Sprintf("%v: sink takes all %d bytes, command returns %v", args, L, r.Err), rec)
				case k == L && w.buf.String() != want:
					e.mismatch("nondeterministic-output", "cmd/hranoprovod-cli", fmt.Sprintf("%v: two runs print different reports", args), rec)
				}
			}
			if len(e.sum.Samples) < 3 {
				e.sample(map[string]interface{}{"cmd": args, "input": in.name, "report_bytes": L, "offsets_tried": len(ks)})
			}
		}
	}
	e.sum.Extra["fault_offsets"] = offsets
	return nil
}

func init() {
	modes["closed-pipe"] = closedPipe
}

// closedPipe: the real binary with stdout on a pipe whose reader has gone, and on /dev/full, for every
// command shape that prints something: the exit status must not be 0
func closedPipe(e *env) error {
	dir := os.Getenv("VERIF_SCRATCH") + "/pipe"
	os.MkdirAll(dir, 0o755)
	writeFile(dir+"/food.yaml", fixedBook)
	writeFile(dir+"/log.yaml", longLog(200))
	for _, args := range append(append([][]string{}, crashShapes...), []string{"gen", "man"}, []string{"gen", "markdown"}) {
		ok := runBinary(dir, nil, nil, args...)
		e.sum.Runs++
		if ok.Exit != 0 || len(ok.Stdout) == 0 {
			continue
		}
		e.sum.Cases++
		for _, sink := range []string{"closed-pipe", "/dev/full"} {
			var w *os.File
			if sink == "closed-pipe" {
				r, pw, err := os.Pipe()
				if err != nil {
					return err
				}
				r.Close()
				w = pw
			} else {
				w, _ = os.OpenFile("/dev/full", os.O_WRONLY, 0)
			}
			res := runBinary(dir, nil, w, args...)
			w.Close()
			e.sum.Runs++
			e.sum.Nontrivial++
			if res.Exit == 0 {
				e.mismatch("lost-output-reported-as-success", "cmd/hranoprovod-cli", fmt.Sprintf("binary %v with stdout on %s (report of %d bytes) exits 0", args, sink, len(ok.Stdout)),
					map[string]interface{}{"cmd": args, "sink": sink})
			}
		}
	}
	return nil
}

func init() {
	modes["pipe-input"] = pipeInput
}

// pipeInput (C10: whenever a command succeeds, every heading and entry of the file has been taken into account): the log
// resp. the recipe book is a named pipe - a file whose size is not known before it has been read to its end.  The real
// binary must print what it prints for the same content in a regular file.
func pipeInput(e *env) error {
	dir := os.Getenv("VERIF_SCRATCH") + "/pipein"
	os.MkdirAll(dir, 0o755)
	log := longLog(40)
	writeFile(dir+"/food.yaml", fixedBook)
	writeFile(dir+"/log.yaml", log)
	feed := func(path, content string) {
		os.Remove(path)
		if err := syscall.Mkfifo(path, 0o644); err != nil {
			return
		}
		go func() {
			if f, err := os.OpenFile(path, os.O_WRONLY, 0); err == nil {
				io.WriteString(f, content)
				f.Close()
			}
		}()
	}
	for _, c := range []struct {
		args []string
		pipe string // which input comes through the pipe
	}{
		{[]string{"csv", "log"}, "log"}, {[]string{"--no-color", "reg"}, "log"}, {[]string{"print"}, "log"}, {[]string{"bal"}, "log"}, {[]string{"report", "quantity"}, "log"},
		{[]string{"stats"}, "log"}, {[]string{"stats"}, "book"},
		{[]string{"csv", "database"}, "book"}, {[]string{"csv", "database-resolved"}, "book"}, {[]string{"--no-color", "reg"}, "book"}, {[]string{"report", "element-total", "calories"}, "book"},
	} {
		want := runBinary(dir, nil, nil, c.args...)
		e.sum.Runs++
		if want.Exit != 0 {
			continue
		}
		args := append([]string{}, c.args...)
		if c.pipe == "log" {
			feed(dir+"/log.fifo", log)
			args = append([]string{"-l", dir + "/log.fifo"}, args...)
		} else {
			feed(dir+"/food.fifo", fixedBook)
			args = append([]string{"-d", dir + "/food.fifo"}, args...)
		}
		got := runBinary(dir, nil, nil, args...)
		e.sum.Runs++
		e.sum.Cases++
		e.sum.Nontrivial++
		if got.TimedOut {
			e.mismatch("cli-hang", "cmd/hranoprovod-cli", fmt.Sprintf("binary %v does not exit with the %s coming through a named pipe", args, c.pipe), map[string]interface{}{"args": args})
		} else if got.Exit == 0 && c.args[0] == "stats" {
			// stats names the files it read: compare the counts
			cnt := regexp.MustCompile(`(?m)^\s*(Database|Log) records:\s*(\d+)`)
			if fmt.Sprint(cnt.FindAllStringSubmatch(got.Stdout, -1)) != fmt.Sprint(cnt.FindAllStringSubmatch(want.Stdout, -1)) {
				e.mismatch("cli-unreadable-reported-as-none", "cmd/hranoprovod-cli/internal/stats", fmt.Sprintf("binary %v: the %s comes through a named pipe; stats counts %v, for the same content in regular files %v", args, c.pipe, cnt.FindAllString(got.Stdout, -1), cnt.FindAllString(want.Stdout, -1)), map[string]interface{}{"args": args})
			}
		} else if got.Exit == 0 && got.Stdout != want.Stdout {
			e.mismatch("cli-unreadable-reported-as-none", "cmd/hranoprovod-cli/internal/utils/utils.go", fmt.Sprintf("binary %v: the %s comes through a named pipe; the command succeeds and prints %q, for the same content in a regular file it prints %q", args, c.pipe, trunc(got.Stdout), trunc(want.Stdout)), map[string]interface{}{"args": args})
		}
		os.Remove(dir + "/log.fifo")
		os.Remove(dir + "/food.fifo")
	}
	return nil
}
