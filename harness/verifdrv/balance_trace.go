package verifdrv

import (
	"fmt"
	"strings"
)

func init() {
	modes["balance-trace"] = balanceTrace
}

// the constants of Trace_Balance.cfg (MC_Balance.tla: TraceAmts, XNameA, XBookB)
var traceXName = []int{2}
var traceXBook = []struct {
	Path []int
	Amt  int
}{{[]int{1}, 3}, {[]int{1, 1}, -2}, {[]int{1, 2}, 0}, {[]int{2, 1}, 3}, {[]int{1, 2, 1}, 1}, {[]int{3}, 2}, {[]int{3, 1}, -1}, {[]int{2, 3}, 4}}

func traceAmt(i int) int { // i = 1.. : 1, 2, -4, 8, 16, -32, ...
	v := 1 << uint(i-1)
	if i%3 == 0 {
		return -v
	}
	return v
}

// balanceTrace (C03, beyond the exhaustive bound): random logs of 4..14 entries over up to 4 segments and depth
// 4, with shared prefixes and names that are prefixes of other names.  The real `bal` is run on the first day
// alone, on the whole log, and in all six display shapes; the rows it prints are recorded in abstract form
//
//	{"ev":"Init","log":[[seg,..],..]}
//	{"ev":"Day","rows":[{val,lvl,label}]}   (twice: after day 1, after day 2)
//	{"ev":"Flush","default":[..],"collapse":[..],"collapseLast":[..],"sdefault":[..],"scollapse":[..],"scollapseLast":[..],"total":n}
//
// and Trace_Balance.tla accepts them iff they are the rows Balance.tla renders from the tree it builds.
func balanceTrace(e *env) error {
	n := e.argInt("logs", 100)
	prefixFree := 0
	defer func() { e.sum.Extra["prefix_free_logs"] = prefixFree }()
	for t := 0; t < n; t++ {
		rng := e.rng
		nseg := 2 + rng.Intn(3)
		cnt := 4 + rng.Intn(11)
		var log [][]int
		for i := 0; i < cnt; i++ {
			var p []int
			if len(log) > 0 && rng.Intn(2) == 0 {
				q := log[rng.Intn(len(log))]
				p = append(p, q[:1+rng.Intn(len(q))]...)
				if rng.Intn(3) != 0 && len(p) < 4 {
					p = append(p, 1+rng.Intn(nseg))
				}
			} else {
				d := 1 + rng.Intn(4)
				for k := 0; k < d; k++ {
					p = append(p, 1+rng.Intn(nseg))
				}
			}
			if t%2 == 0 {
				// every second log: no name is a path-prefix of another (the clause under which collapsed rows are compared exactly)
				clash := false
				for _, q := range log {
					a, b := p, q
					if len(a) > len(b) {
						a, b = b, a
					}
					if len(a) < len(b) && fmt.Sprint(b[:len(a)]) == fmt.Sprint(a) {
						clash = true
					}
				}
				if clash {
					continue
				}
			}
			log = append(log, p)
		}
		if t%5 == 1 {
			// a deep chain: 10..12 segments
			var p []int
			for k := 0; k < 10+rng.Intn(3); k++ {
				p = append(p, 1+rng.Intn(nseg))
			}
			log = append(log, p)
		}
		if t%2 == 0 {
			prefixFree++
		}
		// every third log: the SAME segment names as in every other such log and the book's amounts scaled by 2, 3 or -1
		// (one process, the same food names, different books: state kept between reports would show); the single
		// element itself is then not logged directly, so that every figure of the single-element tree is on one scale
		ua := 1
		segs := pickNames(rng, segPool, 4)
		if t%3 == 2 {
			ua = []int{2, 3, -1}[(t/3)%3]
			segs = []string{"", segPool[0], segPool[1], segPool[2], segPool[3]}
			kept := log[:0]
			for _, p := range log {
				if !(len(p) == 1 && p[0] == traceXName[0]) {
					kept = append(kept, p)
				}
			}
			log = kept
		}
		if t%7 == 3 && t%3 != 2 {
			// the first segment is the EMPTY string (names like "a/", "/b", "a//b"): it sorts before every other
			segs[1] = ""
			kept := log[:0]
			for _, p := range log {
				if !(len(p) == 1 && p[0] == 1) && !(len(p) >= 1 && p[0] == 1 && len(p) > 1 && false) { // the name "" itself cannot be written
					kept = append(kept, p)
				}
			}
			log = kept
		}
		segID := map[string]int{}
		for i := 1; i <= 4; i++ {
			segID[segs[i]] = i
		}
		join := func(p []int) string {
			parts := make([]string, len(p))
			for i, s := range p {
				parts[i] = segs[s]
			}
			return strings.Join(parts, "/")
		}
		unit := []float64{1, 0.5, 0.25}[rng.Intn(3)]
		w := &world{uq: unit, ua: 1}
		cc := &concretiser{rng: rng}
		xname := join(traceXName)
		var book strings.Builder
		// half of the foods get their amount of the element through a nested recipe, next to other elements whose
		// names sort before and after the element's (lines in random order): the resolved amount is the same
		others := []string{"0 first", "M middle", "other", "zz last", "~ very last"}
		for k, f := range traceXBook {
			if join(f.Path) == "" {
				continue // (the empty first segment: a heading cannot be empty; that path is not logged either)
			}
			var lines, midLines []string
			for _, o := range others {
				switch rng.Intn(3) {
				case 0:
					lines = append(lines, cc.entryLine(o, "1"))
				case 1:
					midLines = append(midLines, cc.entryLine(o, "2"))
				}
			}
			amt := cc.entryLine(xname, fmtNum(float64(f.Amt*ua), rng))
			mid := fmt.Sprintf("zz mid %d", k)
			nested := rng.Intn(2) == 0
			if nested {
				midLines = append(midLines, amt)
				lines = append(lines, cc.entryLine(mid, "1"))
			} else {
				lines = append(lines, amt)
			}
			rng.Shuffle(len(lines), func(i, j int) { lines[i], lines[j] = lines[j], lines[i] })
			rng.Shuffle(len(midLines), func(i, j int) { midLines[i], midLines[j] = midLines[j], midLines[i] })
			book.WriteString(join(f.Path) + ":\n" + strings.Join(lines, "\n") + "\n")
			if nested {
				book.WriteString(mid + ":\n" + strings.Join(midLines, "\n") + "\n")
			}
		}
		dayOf := func(i int) int { // Balance.tla DayOf, i = 1..
			if 2*i <= len(log)+1 {
				return 1
			}
			return 2
		}
		render := func(upto int) string {
			var lg strings.Builder
			cur := 0
			for i, p := range log {
				d := dayOf(i + 1)
				if d > upto {
					break
				}
				if d != cur {
					cur = d
					fmt.Fprintf(&lg, "2021/05/%02d:\n", cur)
				}
				lg.WriteString(cc.entryLine(join(p), fmtNum(float64(traceAmt(i+1))*unit, rng)) + "\n")
			}
			return lg.String()
		}
		full := render(2)
		x := &cmpCtx{e: e, c: map[string]interface{}{"log": log}, w: w, book: book.String(), log: full}
		abstract := func(tag string, args []string, logText string) ([]absBalRow, int, bool) {
			x.log = logText
			out, ok := x.run(args...)
			x.log = full
			if !ok {
				return nil, 0, false
			}
			rows, tot, err := parseBalance(out)
			if err != nil {
				x.bad("balance-unparsable", "cmd/hranoprovod-cli/internal/balance", fmt.Sprintf("%s: %v", tag, err))
				return nil, 0, false
			}
			toModel := func(milli int64) int {
				u := int64(unit * 1000)
				if strings.HasPrefix(tag, "s") { // single-element shapes: contributions = quantity x book amount
					u *= int64(ua)
				}
				if milli%u != 0 {
					return 987654321 // not a multiple of the unit: no specification value matches
				}
				return int(milli / u)
			}
			res := []absBalRow{}
			for _, r := range rows {
				lab := []int{}
				for _, s := range strings.Split(r.Label, "/") {
					lab = append(lab, segID[s]) // 0 = not a segment of the universe
				}
				res = append(res, absBalRow{toModel(r.Val), r.Level, lab})
			}
			total := 0
			if tot != nil {
				total = toModel(tot.Val)
				if tot.Label != xname {
					total = 987654321
				}
			} else if strings.Contains(tag, "single") && out != "" {
				total = 987654321
			}
			return res, total, true
		}
		d1, _, ok1 := abstract("default", []string{"bal"}, render(1))
		d2, _, ok2 := abstract("default", []string{"bal"}, full)
		if !ok1 || !ok2 {
			continue
		}
		fl := map[string]interface{}{}
		okAll := true
		for _, m := range []struct {
			key  string
			args []string
		}{{"default", []string{"bal"}}, {"collapse", []string{"bal", "-c"}}, {"collapseLast", []string{"bal", "--collapse-last"}},
			{"sdefault", []string{"bal", "-s", xname}}, {"scollapse", []string{"bal", "-s", xname, "-c"}}, {"scollapseLast", []string{"bal", "--collapse-last", "-s", xname}}} {
			rows, tot, ok := abstract(m.key, m.args, full)
			if !ok {
				okAll = false
				break
			}
			fl[m.key] = rows
			if m.key == "sdefault" {
				fl["total"] = tot
			}
		}
		if !okAll {
			continue
		}
		e.emitEv("Init", map[string]interface{}{"log": log, "text": full})
		e.emitEv("Day", map[string]interface{}{"rows": d1})
		e.emitEv("Day", map[string]interface{}{"rows": d2})
		e.emitEv("Flush", fl)
		e.sum.Traces++
		e.sum.Nontrivial++
		if t%50 == 0 {
			e.sample(map[string]interface{}{"log": full, "book": x.book})
		}
	}
	return nil
}
