package verifdrv

import (
	"fmt"
	"math"
	"math/rand"
	"sort"

	shared "github.com/aquilax/hranoprovod-cli/v3"
	"github.com/aquilax/hranoprovod-cli/v3/resolver"
)

func init() {
	modes["resolver-trace"] = resolverTrace
}

// ---- random books well beyond the exhaustive bound ----

const traceNames = 30 // ids 1..30 (Trace_Resolver.cfg)

type genBook struct {
	Book []absRecipe
	N    int
}

func genRandomBook(rng *rand.Rand) genBook {
	for {
		nr := 1 + rng.Intn(12)
		ids := rng.Perm(traceNames)[:nr]
		for i := range ids {
			ids[i]++
		}
		isRecipe := map[int]bool{}
		rank := map[int]int{}
		for i, id := range ids {
			isRecipe[id] = true
			rank[id] = i
		}
		var leaves []int
		for id := 1; id <= traceNames; id++ {
			if !isRecipe[id] {
				leaves = append(leaves, id)
			}
		}
		// a small set of basic elements so that paths meet (sharing, repeated elements)
		nl := 1 + rng.Intn(5)
		leaves = leaves[:nl+rng.Intn(len(leaves)-nl)]
		rng.Shuffle(len(leaves), func(i, j int) { leaves[i], leaves[j] = leaves[j], leaves[i] })
		leaves = leaves[:nl]
		cyclic := rng.Intn(12) == 0
		coefs := []int{1, 1, 2, 2, 3, -1, -2, 0, 1, 2, -3}
		var book []absRecipe
		for _, id := range ids {
			r := absRecipe{Name: id, Ingr: [][]int{}}
			ni := rng.Intn(6)
			for j := 0; j < ni; j++ {
				var ing int
				switch {
				case rng.Intn(100) < 45:
					ing = leaves[rng.Intn(len(leaves))]
				case cyclic && rng.Intn(4) == 0:
					ing = ids[rng.Intn(len(ids))]
				default:
					// a recipe of higher rank (acyclic); none left: a leaf
					if rank[id] == len(ids)-1 {
						ing = leaves[rng.Intn(len(leaves))]
					} else {
						ing = ids[rank[id]+1+rng.Intn(len(ids)-rank[id]-1)]
					}
				}
				r.Ingr = append(r.Ingr, []int{ing, coefs[rng.Intn(len(coefs))]})
			}
			book = append(book, r)
		}
		n := 10
		if rng.Intn(3) == 0 {
			n = 1 + rng.Intn(12)
		}
		g := genBook{Book: book, N: n}
		if absBound(g) < 1<<28 {
			return g
		}
	}
}

// absBound resolves the book with absolute coefficients by plain recursion (depth limited) and returns
// an upper bound of every intermediate value the resolver can compute, so that the specification's
// 32-bit integers cannot overflow.
func absBound(g genBook) float64 {
	def := map[int]*absRecipe{}
	for i := range g.Book {
		def[g.Book[i].Name] = &g.Book[i]
	}
	worst := 0.0
	var total func(id int, level int) float64
	total = func(id int, level int) float64 {
		r := def[id]
		if r == nil || level > 13 {
			return 1
		}
		s := 0.0
		for _, in := range r.Ingr {
			s += math.Abs(float64(in[1])) * total(in[0], level+1)
			if s > 1e12 {
				return s
			}
		}
		if s > worst {
			worst = s
		}
		return s
	}
	for _, r := range g.Book {
		total(r.Name, 0)
	}
	return worst
}

type trEvent map[string]interface{}

func bookPairs(book []absRecipe) [][]interface{} {
	out := make([][]interface{}, 0, len(book))
	for _, r := range book {
		ing := r.Ingr
		if ing == nil {
			ing = [][]int{}
		}
		out = append(out, []interface{}{r.Name, ing})
	}
	return out
}

// abstractDB maps a concrete resolved book back to ids and integer amounts (amount / unit).
func abstractDB(db shared.DBNodeMap, ids map[string]int, unit float64) ([][]interface{}, string) {
	keys := make([]string, 0, len(db))
	for k := range db {
		keys = append(keys, k)
	}
	sort.Strings(keys)
	out := make([][]interface{}, 0, len(db))
	for _, k := range keys {
		id, ok := ids[k]
		if !ok {
			return nil, fmt.Sprintf("unknown recipe name %q in the resolved book", k)
		}
		el := [][]int{}
		for _, e := range db[k].Elements {
			eid, ok := ids[e.Name]
			if !ok {
				return nil, fmt.Sprintf("unknown element name %q in recipe %q", e.Name, k)
			}
			v := e.Value / unit
			if v != math.Trunc(v) || math.Abs(v) > 1<<30 {
				return nil, fmt.Sprintf("amount %v of %q in %q is not a multiple of the unit %v", e.Value, e.Name, k, unit)
			}
			el = append(el, []int{eid, int(v)})
		}
		out = append(out, []interface{}{id, el})
	}
	return out, ""
}

// resolverTrace records executions of the real resolver on random books as ndjson traces
func resolverTrace(e *env) error {
	nbooks := e.argInt("books", 300)
	pool := mergedPool()
	units := []float64{1, 0.5, 0.25}
	for b := 0; b < nbooks; b++ {
		g := genRandomBook(e.rng)
		names := pickNames(e.rng, pool, traceNames)
		ids := map[string]int{}
		for i := 1; i <= traceNames; i++ {
			ids[names[i]] = i
		}
		unit := units[b%len(units)]
		deep := false
		for _, r := range g.Book {
			for _, in := range r.Ingr {
				for _, r2 := range g.Book {
					if r2.Name == in[0] && len(r2.Ingr) > 0 {
						deep = true
					}
				}
			}
		}
		if deep {
			e.sum.Nontrivial++
		}
		for api := 0; api < 2; api++ {
			order := e.rng.Perm(len(g.Book))
			ins := make([]int, len(order))
			for i, p := range order {
				ins[i] = g.Book[p].Name
			}
			db := buildDB(g.Book, names, ins, unit)
			e.emitEv("Init", trEvent{"book": bookPairs(g.Book), "n": g.N, "api": api, "id": b})
			resolver.VerifVisit = func(n string) {
				e.emitEv("Visit", trEvent{"n": ids[n]})
			}
			var err error
			if api == 0 {
				_, err = resolver.Resolve(resolver.Config{MaxDepth: g.N}, db)
			} else {
				err = resolver.NewResolver(db, resolver.Config{MaxDepth: g.N}).Resolve()
			}
			resolver.VerifVisit = nil
			e.sum.Runs++
			ev := trEvent{}
			switch {
			case err == nil:
				adb, bad := abstractDB(db, ids, unit)
				if bad != "" {
					e.mismatch("resolver-abstraction", "resolver/resolver.go", bad, map[string]interface{}{"book": g, "names": names, "unit": unit})
					adb = [][]interface{}{}
				}
				ev["status"] = "ok"
				ev["db"] = adb
			case isDepthErr(err):
				ev["status"] = "depthError"
				ev["db"] = [][]interface{}{}
			default:
				ev["status"] = "otherError:" + err.Error()
				ev["db"] = [][]interface{}{}
			}
			e.emitEv("Exit", ev)
			e.sum.Traces++
		}
		if b < 2 {
			e.sample(map[string]interface{}{"book": g, "unit": unit})
		}
	}
	return nil
}
