package verifdrv

import (
	"fmt"
	"math/big"
	"strings"
)

func init() {
	modes["csv-decimal"] = csvDecimal
}

var decLits = []string{"0.0005", "0.0015", "0.0025", "1e-4", "0.0004", "0.00049999", "10000000", "9999999.9995", "1234567.891", "33.333", "0.1", "0.2", "0.7", "-0.0005", "-2.675", "2.675", "1.005", "0.125", "100.5", "3", "-1e7", "0.333333333", "5e-324", "1e-10", "7.1234", "-0.05", "0.005", "0.015", "0.045"}

// within reports |printed*10^d - exact*10^d| <= 1/2
func withinHalfUnit(printed string, exact *big.Rat, decimals int) bool {
	p, ok := new(big.Rat).SetString(printed)
	if !ok {
		return false
	}
	scale := new(big.Rat).SetInt(new(big.Int).Exp(big.NewInt(10), big.NewInt(int64(decimals)), nil))
	d := new(big.Rat).Sub(p, exact)
	d.Mul(d, scale)
	d.Abs(d)
	// half a unit, plus one millionth of a unit for the float64 representation of the decimal literals
	// (a sum that lies within 1e-6 units of a rounding boundary may fall on either side)
	return d.Cmp(big.NewRat(500001, 1000000)) <= 0
}

// csvDecimal: random logs and books with decimal quantities; the CSV figures must be within half a
// unit of the last printed digit of the exact value (rational arithmetic on the file's literals)
func csvDecimal(e *env) error {
	files := e.argInt("files", 200)
	pool := mergedPool()
	for f := 0; f < files; f++ {
		names := pickNames(e.rng, pool, 6)
		cc := &concretiser{rng: e.rng}
		// ---- log ----
		var lg strings.Builder
		type key struct{ day, name string }
		exact := map[key]*big.Rat{}
		var order []key
		nd := 1 + e.rng.Intn(3)
		for d := 1; d <= nd; d++ {
			day := fmt.Sprintf("2021/06/%02d", d)
			lg.WriteString(day + ":\n")
			ne := e.rng.Intn(6)
			for i := 0; i < ne; i++ {
				n := names[1+e.rng.Intn(4)]
				lit := decLits[e.rng.Intn(len(decLits))]
				lg.WriteString(cc.entryLine(n, lit) + "\n")
				k := key{fmt.Sprintf("2021-06-%02d", d), n}
				r, _ := new(big.Rat).SetString(lit)
				if exact[k] == nil {
					exact[k] = new(big.Rat)
					order = append(order, k)
				}
				exact[k].Add(exact[k], r)
			}
		}
		out := &failWriter{limit: -1}
		res := runInProc([]string{"csv", "log"}, map[string]fileSrc{"log.yaml": strSrc(lg.String())}, out)
		e.sum.Runs++
		rec := map[string]interface{}{"log": lg.String()}
		if res.Err != nil || res.Panicked != nil {
			e.mismatch("report-fails", "cmd/hranoprovod-cli/internal/csv", fmt.Sprintf("csv log fails: %v %v", res.Err, res.Panicked), rec)
			continue
		}
		recs, err := parseCSVStrict(out.buf.String())
		if err != nil || len(recs) != len(order) {
			e.mismatch("csv-invalid", "cmd/hranoprovod-cli/internal/csv", fmt.Sprintf("csv log: %v, %d rows for %d (day, food) pairs", err, len(recs), len(order)), rec)
			continue
		}
		if len(order) >= 2 {
			e.sum.Nontrivial++
		}
		for i, k := range order {
			if len(recs[i]) != 3 || recs[i][0] != k.day || recs[i][1] != k.name || !threeDecimals(recs[i][2]) || !withinHalfUnit(recs[i][2], exact[k], 3) {
				e.mismatch("csv-amount-not-within-half-unit", "cmd/hranoprovod-cli/internal/csv", fmt.Sprintf("csv log row %d is %q; the exact sum for (%s, %q) is %s", i, recs[i], k.day, k.name, exact[k].FloatString(12)), rec)
				break
			}
		}
		// ---- raw book ----
		var bk strings.Builder
		type brow struct {
			rec, name string
			v         *big.Rat
		}
		var brows []brow
		for r := 1; r <= 1+e.rng.Intn(3); r++ {
			bk.WriteString(names[r] + ":\n")
			for i := 0; i < e.rng.Intn(4); i++ {
				lit := decLits[e.rng.Intn(len(decLits))]
				n := names[4+e.rng.Intn(3)]
				bk.WriteString(cc.entryLine(n, lit) + "\n")
				v, _ := new(big.Rat).SetString(lit)
				brows = append(brows, brow{names[r], n, v})
			}
		}
		out2 := &failWriter{limit: -1}
		res2 := runInProc([]string{"csv", "database"}, map[string]fileSrc{"food.yaml": strSrc(bk.String())}, out2)
		e.sum.Runs++
		rec2 := map[string]interface{}{"book": bk.String()}
		if res2.Err != nil || res2.Panicked != nil {
			e.mismatch("report-fails", "cmd/hranoprovod-cli/internal/csv", fmt.Sprintf("csv database fails: %v %v", res2.Err, res2.Panicked), rec2)
			continue
		}
		recs2, err := parseCSVStrict(out2.buf.String())
		if err != nil || len(recs2) != len(brows) {
			e.mismatch("csv-invalid", "cmd/hranoprovod-cli/internal/csv", fmt.Sprintf("csv database: %v, %d rows for %d entries", err, len(recs2), len(brows)), rec2)
			continue
		}
		for i, b := range brows {
			if len(recs2[i]) != 3 || recs2[i][0] != b.rec || recs2[i][1] != b.name || !withinHalfUnit(recs2[i][2], b.v, 2) {
				e.mismatch("csv-amount-not-within-half-unit", "cmd/hranoprovod-cli/internal/csv", fmt.Sprintf("csv database row %d is %q; the entry is (%q, %q, %s)", i, recs2[i], b.rec, b.name, b.v.FloatString(12)), rec2)
				break
			}
		}
		if f < 2 {
			e.sample(map[string]interface{}{"log": lg.String(), "csv_log": out.buf.String()})
		}
	}
	return nil
}

func newRat(lit string) (*big.Rat, bool) { return new(big.Rat).SetString(lit) }
