package verifdrv

import (
	"encoding/json"
	"fmt"
	"math"
	"math/rand"
	"os"
	"path/filepath"
	"regexp"
	"sort"
	"strconv"
	"strings"
)

func init() {
	modes["compose-replay"] = composeReplay
}

// composeReplay (C12): the days of every enumerated log are used as appended blocks B1 ++ B2 ++ B3 (B3
// repeats B1's date with B2's entries reversed: a repeated date and a day that differs only in order);
// for every split point the per-day reports of the concatenated FILE must be the byte concatenation of
// the reports of the parts, and the period reports the element-wise sum.
func composeReplay(e *env) error {
	stride := e.argInt("stride", 1)
	return e.parallelCases(func(idx int, raw json.RawMessage, rng *rand.Rand) error {
		c := &repCase{}
		if err := json.Unmarshal(raw, c); err != nil {
			return err
		}
		e.count(1, 0, 0)
		if stride > 1 && (idx+int(e.seed))%stride != 0 {
			return nil
		}
		maxID := c.Element
		for _, r := range c.Book {
			for _, el := range r.Els {
				if el[0] > maxID {
					maxID = el[0]
				}
			}
			if r.Name > maxID {
				maxID = r.Name
			}
		}
		for _, d := range c.Log {
			for _, en := range d.Es {
				if en[0] > maxID {
					maxID = en[0]
				}
			}
		}
		w := newWorld(rng, maxID, idx%2 == 0)
		w.ua = 1
		if idx%3 == 1 {
			// category paths, one name a path-prefix of another (nothing here depends on the order of names)
			paths := []string{"", "k/a", "k/a/b", "k", "m/x", "k/a/b/c", "m", "z"}
			for i := 1; i <= maxID && i < len(paths); i++ {
				w.names[i] = paths[i]
			}
		}
		cc := &concretiser{rng: rng}
		blocks := append([]absDay{}, c.Log...)
		if len(c.Log) == 2 {
			rev := make([][]int, len(c.Log[1].Es))
			for i, en := range c.Log[1].Es {
				rev[len(rev)-1-i] = en
			}
			d3 := c.Log[0].Date
			if idx%2 == 1 {
				d3 = c.Log[1].Date // the repeated date directly follows its first block
			}
			blocks = append(blocks, absDay{Date: d3, Es: rev})
		} else {
			blocks = append(blocks, absDay{Date: 2, Es: [][]int{}}) // an empty day appended
		}
		// every fifth case: a date format with a time of day; the blocks of one date get different times
		var global []string
		if idx%5 == 4 {
			global = []string{"--date-format", "2006/01/02 15:04"}
			for k := range w.dates {
				if w.dates[k] != "" {
					w.dates[k] += " 08:00"
				}
			}
		}
		texts := make([]string, len(blocks))
		for i, b := range blocks {
			if global != nil {
				w.dates[b.Date] = w.dates[b.Date][:11] + fmt.Sprintf("%02d:30", 8+i)
			}
			texts[i] = w.logText([]absDay{b}, cc)
			if !strings.HasSuffix(texts[i], "\n") {
				texts[i] += "\n"
			}
			// notes under the heading (print shows them): a named one in the first block, a bare '#' later
			if j := strings.Index(texts[i], ":\n"); j >= 0 && idx%3 != 0 {
				note := "  #\n"
				if i == 0 {
					note = "  # meal: block one\n"
				}
				texts[i] = texts[i][:j+2] + note + texts[i][j+2:]
			}
		}
		book := w.bookText(c, cc)
		el := w.names[c.Element]
		e.count(0, 0, 1)
		run := func(log string, args ...string) (string, bool) {
			out := &failWriter{limit: -1}
			res := runInProc(append(append([]string{}, global...), args...), map[string]fileSrc{"food.yaml": strSrc(book), "log.yaml": strSrc(log)}, out)
			e.count(0, 1, 0)
			if res.Err != nil || res.Panicked != nil || res.TimedOut {
				e.mismatch("report-fails", "cmd/hranoprovod-cli", fmt.Sprintf("%v fails on a well-formed log: %v %v", args, res.Err, res.Panicked), map[string]interface{}{"log": log, "book": book})
				return "", false
			}
			return out.buf.String(), true
		}
		perDay := [][]string{
			{"--no-color", "reg"}, {"--no-color", "reg", "--internal-template-name", "left-aligned"}, {"--no-color", "reg", "--use-old-reg-reporter"},
			{"csv", "log"}, {"print"}, {"reg", "-f", "."}, {"reg", "-s", el}, {"reg", "-s", el, "--csv"}, {"--no-color", "reg", "--totals-only"},
		}
		for split := 1; split < len(blocks); split++ {
			l1 := strings.Join(texts[:split], "")
			l2 := strings.Join(texts[split:], "")
			whole := l1 + l2
			rec := map[string]interface{}{"part1": l1, "part2": l2, "book": book}
			for _, args := range perDay {
				o1, ok1 := run(l1, args...)
				o2, ok2 := run(l2, args...)
				ow, ok3 := run(whole, args...)
				if ok1 && ok2 && ok3 && ow != o1+o2 {
					e.mismatch("per-day-report-not-concatenation", "cmd/hranoprovod-cli/internal/utils/hranoprovod.go", fmt.Sprintf("%v: report of the concatenated log %q differs from the concatenation of the parts' reports %q + %q", args, ow, o1, o2), rec)
				}
			}
			// period reports: element-wise sums
			sumRows := func(args []string, parse func(string) (map[string][3]int64, error)) {
				o1, ok1 := run(l1, args...)
				o2, ok2 := run(l2, args...)
				ow, ok3 := run(whole, args...)
				if !(ok1 && ok2 && ok3) {
					return
				}
				m1, e1 := parse(o1)
				m2, e2 := parse(o2)
				mw, e3 := parse(ow)
				if e1 != nil || e2 != nil || e3 != nil {
					e.mismatch("period-report-unparsable", "cmd/hranoprovod-cli", fmt.Sprintf("%v: %v %v %v", args, e1, e2, e3), rec)
					return
				}
				keys := map[string]bool{}
				for k := range m1 {
					keys[k] = true
				}
				for k := range m2 {
					keys[k] = true
				}
				same := len(keys) == len(mw)
				for k := range keys {
					a, b := m1[k], m2[k]
					if mw[k] != [3]int64{a[0] + b[0], a[1] + b[1], a[2] + b[2]} {
						same = false
					}
				}
				if !same {
					e.mismatch("period-report-not-sum-of-parts", "cmd/hranoprovod-cli", fmt.Sprintf("%v: whole %v, parts %v and %v", args, mw, m1, m2), rec)
				}
			}
			sumRows([]string{"report", "totals"}, func(o string) (map[string][3]int64, error) {
				rows, err := parseTotalsReport(o)
				m := map[string][3]int64{}
				for _, r := range rows {
					m[r.Name] = [3]int64{r.Pos, r.Neg, r.Sum}
				}
				return m, err
			})
			sumRows([]string{"report", "quantity"}, func(o string) (map[string][3]int64, error) {
				rows, err := parseNumTabName(o)
				m := map[string][3]int64{}
				for _, r := range rows {
					m[r.Name] = [3]int64{r.Val, 0, 0}
				}
				return m, err
			})
			// the collapsed renderings join chains differently in the whole and in the parts (that is layout); what must
			// add up in every mode is the top level (everything that was logged) and the grand total
			for _, bargs := range [][]string{{"bal", "-c"}, {"bal", "--collapse-last"}, {"bal", "-c", "-s", el}, {"bal", "--collapse-last", "-s", el}} {
				sumRows(bargs, func(o string) (map[string][3]int64, error) {
					rows, tot, err := parseBalance(o)
					m := map[string][3]int64{}
					var top int64
					for _, r := range rows {
						if r.Level == 0 {
							top += r.Val
						}
					}
					m["\x00top level"] = [3]int64{top, 0, 0}
					if tot != nil {
						m["\x00grand total"] = [3]int64{tot.Val, 0, 0}
					}
					return m, err
				})
			}
			for _, bargs := range [][]string{{"bal"}, {"bal", "-s", el}} {
				sumRows(bargs, func(o string) (map[string][3]int64, error) {
					rows, tot, err := parseBalance(o)
					m := map[string][3]int64{}
					var stack []string
					for _, r := range rows {
						if r.Level > len(stack) {
							return nil, fmt.Errorf("bad indent")
						}
						full := r.Label
						if r.Level > 0 {
							full = stack[r.Level-1] + "/" + r.Label
						}
						stack = append(stack[:r.Level], full)
						m[full] = [3]int64{r.Val, 0, 0}
					}
					if tot != nil {
						m["\x00grand total"] = [3]int64{tot.Val, 0, 0}
					}
					return m, err
				})
			}
		}
		_ = 0
		if idx%4000 == 2 {
			keys := []string{}
			for i := range texts {
				keys = append(keys, texts[i])
			}
			sort.Strings(keys)
			e.sample(map[string]interface{}{"blocks": texts})
		}
		return nil
	})
}

func init() {
	modes["compose-binary"] = composeBinary
}

// composeBinary (C12 across processes): the per-day reports of a concatenated log, produced by one process of the real
// binary, equal the concatenation of the reports that separate processes produce for the parts.  State that a process
// keeps from one day to the next (a cache of formatted numbers, an accumulator that is not reset) cannot hide here the
// way it can when whole and parts are produced by the same process.  Inputs: days with negative zeros (a negative
// quantity of a food with a zero amount), sub-cent amounts, repeated foods and repeated dates.
func composeBinary(e *env) error {
	if os.Getenv("VERIF_BIN") == "" {
		return fmt.Errorf("VERIF_BIN not set")
	}
	scratch := os.Getenv("VERIF_SCRATCH")
	book := "z/water:\n  kcal: 0\n  fat: 1\nbread:\n  kcal: 250\n  fat: 1.115\n  salt: -0.004\nempty:\n"
	blocks := []string{
		"2021/01/01:\n  z/water: -1\n",
		"2021/01/02:\n  z/water: 1\n  bread: 0\n",
		"2021/01/02:\n  bread: -0\n  kcal: 0\n  empty: 2\n",
		"2021/01/03:\n  bread: 0.3\n  bread: -0.1\n  bread: -0.2\n  unknown food: -0.004\n",
		"2021/01/04:\n  bread: 2\n  z/water: 3\n  kcal: -500\n",
		"2021/01/05:\n",
		// more than 8 lines that merge to fewer foods (first food repeated), then another long day with the same foods
		"2021/01/06:\n  bread: 1\n  z/water: 1\n  bread: 2\n  kcal: 3\n  bread: 0.5\n  z/water: 2\n  empty: 1\n  bread: 1\n  kcal: 1\n  z/water: -1\n",
		"2021/01/07:\n  kcal: 1\n  bread: 1\n  z/water: 1\n  kcal: 2\n  a long unknown food name, number one: 1\n  bread: 2\n  z/water: 2\n  empty: 1\n  kcal: 1\n  bread: 3\n  fat: 2\n",
		// the same day of the year, one year later; and a name that fits neither column, on two days
		"2022/01/02:\n  bread: 1\n  a long unknown food name, number one: 2\n",
		"2021/01/02:\n  a long unknown food name, number one: 1\n  fat: 1\n",
	}
	// a long history: 70 days (period reports are printed once, at the end, however long the walk)
	var hist strings.Builder
	for d := 0; d < 70; d++ {
		fmt.Fprintf(&hist, "2021/%02d/%02d:\n  bread: %d\n  kcal: -%d\n", 3+d/28, 1+d%28, d%5, d%3)
	}
	blocks = append(blocks, hist.String())
	shapes := [][]string{
		{"--no-color", "reg"}, {"reg"}, {"--no-color", "reg", "--internal-template-name", "left-aligned"}, {"--no-color", "reg", "--use-old-reg-reporter"},
		{"--no-color", "reg", "--totals-only"}, {"--no-color", "reg", "--no-totals"}, {"csv", "log"}, {"print"}, {"reg", "-f", "."}, {"reg", "-s", "kcal"}, {"reg", "-s", "salt", "--csv"},
		{"--no-color", "reg", "--shorten"}, {"--no-color", "reg", "--shorten", "--no-totals"},
	}
	// period reports: the rows of the whole are the element-wise sums of the rows of the parts (figures as printed;
	// the blocks used for this carry whole numbers only)
	periodShapes := [][]string{{"bal"}, {"bal", "-s", "kcal"}, {"report", "totals"}, {"report", "quantity"}, {"reg", "-s", "kcal", "-g"}}
	run := func(dir, log string, args []string) (string, bool) {
		writeFile(filepath.Join(dir, "food.yaml"), book)
		writeFile(filepath.Join(dir, "log.yaml"), log)
		r := runBinary(dir, nil, nil, args...)
		e.sum.Runs++
		if r.Exit != 0 {
			e.mismatch("report-fails", "cmd/hranoprovod-cli", fmt.Sprintf("binary %v exits %d on a well-formed log: %s", args, r.Exit, firstLine(r.Stderr)), map[string]interface{}{"log": log, "book": book})
			return "", false
		}
		return r.Stdout, true
	}
	dir := filepath.Join(scratch, "compose-bin")
	os.MkdirAll(dir, 0o755)
	orders := [][]int{{0, 1, 2, 3, 4, 5}, {1, 0}, {3, 0, 2}, {4, 3, 2, 1, 0}, {2, 2, 0, 1}, {6, 7, 6}, {1, 8, 9}, {9, 7, 8}, {4, 10}, {10, 6}}
	// numbers of every row of a period report, keyed by the text of the row without its numbers
	rowSums := func(out string) map[string][]float64 {
		m := map[string][]float64{}
		numRe := regexp.MustCompile(`-?\d+\.\d+`)
		for _, l := range strings.Split(out, "\n") {
			if strings.Trim(l, "-| ") == "" {
				continue
			}
			key := strings.Join(strings.Fields(numRe.ReplaceAllString(l, "#")), " ")
			for i, x := range numRe.FindAllString(l, -1) {
				v, _ := strconv.ParseFloat(x, 64)
				for len(m[key]) <= i {
					m[key] = append(m[key], 0)
				}
				m[key][i] += v
			}
		}
		return m
	}
	for _, ord := range [][]int{{4, 10}, {10, 4}, {6, 10, 7}} {
		for _, args := range periodShapes {
			e.sum.Cases++
			sum := map[string][]float64{}
			var whole strings.Builder
			ok := true
			for _, b := range ord {
				whole.WriteString(blocks[b])
				o, k := run(dir, blocks[b], args)
				ok = ok && k
				for key, vs := range rowSums(o) {
					for i, v := range vs {
						for len(sum[key]) <= i {
							sum[key] = append(sum[key], 0)
						}
						sum[key][i] += v
					}
				}
			}
			ow, k := run(dir, whole.String(), args)
			if !(ok && k) {
				continue
			}
			got := rowSums(ow)
			same := len(got) == len(sum)
			for key, vs := range sum {
				g := got[key]
				if len(g) != len(vs) {
					same = false
					break
				}
				for i := range vs {
					if math.Abs(g[i]-vs[i]) > 0.0051*float64(len(ord)) {
						same = false
					}
				}
			}
			if !same {
				e.mismatch("period-report-not-sum-of-parts", "cmd/hranoprovod-cli", fmt.Sprintf("binary %v: the report of the concatenated log %q is not the row-wise sum of the reports of its blocks %v (%v)", args, ow, ord, sum),
					map[string]interface{}{"log": whole.String(), "book": book, "order": ord})
			}
		}
	}
	dates := map[string]bool{"2021/01/01": true, "2021/01/02": true, "2021/01/03": true, "2021/01/04": true, "2021/01/05": true, "2021/01/06": true, "2021/01/07": true, "2022/01/02": true}
	for d := 0; d < 70; d++ {
		dates[fmt.Sprintf("2021/%02d/%02d", 3+d/28, 1+d%28)] = true
	}
	for _, ord := range orders {
		// C15 across processes: default = per day the --no-totals lines followed by the --totals-only lines
		var wl strings.Builder
		for _, b := range ord {
			wl.WriteString(blocks[b])
		}
		for _, tpl := range [][]string{nil, {"--internal-template-name", "left-aligned"}, {"--use-old-reg-reporter"}} {
			base := append([]string{"--no-color", "reg"}, tpl...)
			both, k1 := run(dir, wl.String(), base)
			nt, k2 := run(dir, wl.String(), append(append([]string{}, base...), "--no-totals"))
			to, k3 := run(dir, wl.String(), append(append([]string{}, base...), "--totals-only"))
			if !(k1 && k2 && k3) {
				continue
			}
			cb, cn, ct := dayChunks(both, dates), dayChunks(nt, dates), dayChunks(to, dates)
			okI := len(cb) == len(cn) && len(cb) == len(ct)
			for i := 0; okI && i < len(cb); i++ {
				nl := strings.Index(cn[i], "\n") + 1
				tl := strings.Index(ct[i], "\n") + 1
				okI = nl > 0 && tl > 0 && cn[i][:nl] == ct[i][:tl] && cb[i] == cn[i]+ct[i][tl:]
			}
			if !okI {
				e.mismatch("default-not-interleave-of-no-totals-and-totals-only", "cmd/hranoprovod-cli/internal/reporter", fmt.Sprintf("binary %v (three processes): default %q, --no-totals %q, --totals-only %q", base, both, nt, to), map[string]interface{}{"log": wl.String(), "book": book})
			}
		}
		for _, args := range shapes {
			e.sum.Cases++
			e.sum.Nontrivial++
			var whole, parts strings.Builder
			ok := true
			for _, b := range ord {
				whole.WriteString(blocks[b])
				o, k := run(dir, blocks[b], args)
				ok = ok && k
				parts.WriteString(o)
			}
			ow, k := run(dir, whole.String(), args)
			if ok && k && ow != parts.String() {
				e.mismatch("per-day-report-not-concatenation", "cmd/hranoprovod-cli/internal/utils/hranoprovod.go",
					fmt.Sprintf("binary %v: one process prints %q for the concatenated log; separate processes print %q for its blocks %v", args, ow, parts.String(), ord),
					map[string]interface{}{"log": whole.String(), "book": book, "order": ord})
			}
		}
	}
	return nil
}
