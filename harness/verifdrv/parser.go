package verifdrv

import (
	"encoding/json"
	"errors"
	"fmt"
	"io"
	"math"
	"math/big"
	"strings"

	shared "github.com/aquilax/hranoprovod-cli/v3"
	"github.com/aquilax/hranoprovod-cli/v3/parser"
)

func init() {
	modes["lexer-replay"] = lexerReplay
}

// pEvent is one callback of parser.ParseStreamCallback in abstract form
type pEvent struct {
	T        string           `json:"t"` // "node" | "err"
	Header   string           `json:"header,omitempty"`
	Elements []shared.Element `json:"elements,omitempty"`
	Notes    [][2]string      `json:"notes,omitempty"`
	ErrKind  string           `json:"kind,omitempty"` // "syntax" | "number" | "other"
	LineNo   int              `json:"line,omitempty"`
	Line     string           `json:"text,omitempty"`
	NumText  string           `json:"num,omitempty"`
}

func errEvent(err error) pEvent {
	var bs *parser.ErrorBadSyntax
	var ec *parser.ErrorConversion
	switch {
	case errors.As(err, &bs):
		return pEvent{T: "err", ErrKind: "syntax", LineNo: bs.LineNumber, Line: bs.Line}
	case errors.As(err, &ec):
		return pEvent{T: "err", ErrKind: "number", LineNo: ec.LineNumber, Line: ec.Line, NumText: ec.Text}
	default:
		return pEvent{T: "err", ErrKind: "other", Line: err.Error()}
	}
}

func nodeEvent(n *shared.ParserNode) pEvent {
	ev := pEvent{T: "node", Header: n.Header}
	ev.Elements = append(ev.Elements, n.Elements...)
	if n.Metadata != nil {
		for _, m := range *n.Metadata {
			ev.Notes = append(ev.Notes, [2]string{m.Name, m.Value})
		}
	}
	return ev
}

// runCallbackParser runs the real ParseStreamCallback; policy "continue" never stops (lint, fuzz
// target), "stop" stops at the first error like every command.  A panic is caught and reported.
func runCallbackParser(r io.Reader, policy string) (events []pEvent, ret error, panicked interface{}) {
	defer func() {
		if p := recover(); p != nil {
			panicked = p
		}
	}()
	ret = parser.ParseStreamCallback(r, lexCfg, func(n *shared.ParserNode, err error) (bool, error) {
		if err != nil {
			events = append(events, errEvent(err))
			if policy == "stop" {
				return true, err
			}
			return false, nil
		}
		if n == nil {
			events = append(events, pEvent{T: "err", ErrKind: "nil-node"})
			return false, nil
		}
		events = append(events, nodeEvent(n))
		return false, nil
	})
	return
}

// exactFloat returns the float64 nearest to the decimal literal, computed with exact rational
// arithmetic (math/big), independently of strconv
func exactFloat(lit string) (float64, bool) {
	s := lit
	if strings.HasSuffix(s, ".") { // "1." : Rat.SetString wants a digit after the point
		s = s + "0"
	}
	if i := strings.Index(s, ".e"); i >= 0 {
		s = s[:i] + ".0" + s[i+1:]
	}
	if i := strings.Index(s, ".E"); i >= 0 {
		s = s[:i] + ".0" + s[i+1:]
	}
	r, ok := new(big.Rat).SetString(s)
	if !ok {
		return 0, false
	}
	f, _ := r.Float64()
	if f == 0 && strings.HasPrefix(lit, "-") {
		f = math.Copysign(0, -1) // big.Rat has no negative zero; strconv gives -0 for "-0", "-0.0", "-0e5" ...
	}
	return f, true
}

type lexCase struct {
	Line []string `json:"line"`
	Rec  struct {
		K    string   `json:"k"`
		Name []string `json:"name"`
		Num  []string `json:"num"`
		Note struct {
			Name  []string `json:"name"`
			Value []string `json:"value"`
		} `json:"note"`
	} `json:"rec"`
	Orphan string `json:"orphan"`
}

func chars(cs []string) string {
	var b strings.Builder
	for _, c := range cs {
		if c == "q" {
			b.WriteByte('"')
		} else {
			b.WriteString(c)
		}
	}
	return b.String()
}

// sameFloat: the same value, and the same sign when it is a zero
func sameFloat(a, b float64) bool {
	return (a == b && math.Signbit(a) == math.Signbit(b)) || (a != a && b != b)
}

// the parser configuration the tokenizer modes run under (lexer-replay arg "cc": another comment character)
var lexCfg = parser.NewDefaultConfig()

// checkLexed compares the events the real parser produced for "H:\n<line>\n" with the
// specification's classification of <line>
func checkLexed(c *lexCase, text string, ev []pEvent, ret error, lineNo int) string {
	nodeH := func(e pEvent) bool { return e.T == "node" && e.Header == "H" }
	bare := func(e pEvent) bool { return nodeH(e) && len(e.Elements) == 0 && len(e.Notes) == 0 }
	if ret != nil {
		return fmt.Sprintf("parser returned %v", ret)
	}
	switch c.Rec.K {
	case "skip":
		if len(ev) != 1 || !bare(ev[0]) {
			return fmt.Sprintf("specification: line is skipped; code delivered %+v", ev)
		}
	case "head":
		want := chars(c.Rec.Name)
		if len(ev) != 2 || !bare(ev[0]) || ev[1].T != "node" || ev[1].Header != want || len(ev[1].Elements) != 0 {
			return fmt.Sprintf("specification: heading %q; code delivered %+v", want, ev)
		}
	case "note":
		wn, wv := chars(c.Rec.Note.Name), chars(c.Rec.Note.Value)
		// under a configured comment character only the classification is compared: what the note's name and
		// value are then (the code strips '#' literally) is fixed by no property
		if len(ev) != 1 || !nodeH(ev[0]) || len(ev[0].Elements) != 0 || len(ev[0].Notes) != 1 || (lexCfg.CommentChar == '#' && ev[0].Notes[0] != [2]string{wn, wv}) {
			return fmt.Sprintf("specification: note (%q,%q); code delivered %+v", wn, wv, ev)
		}
	case "entry":
		wn := chars(c.Rec.Name)
		wv, ok := exactFloat(chars(c.Rec.Num))
		if !ok {
			return "harness cannot evaluate literal " + chars(c.Rec.Num)
		}
		if len(ev) != 1 || !nodeH(ev[0]) || len(ev[0].Notes) != 0 || len(ev[0].Elements) != 1 || ev[0].Elements[0].Name != wn || !sameFloat(ev[0].Elements[0].Value, wv) {
			return fmt.Sprintf("specification: entry (%q, %v); code delivered %+v", wn, wv, ev)
		}
	case "badsyntax":
		if len(ev) != 2 || ev[0].T != "err" || ev[0].ErrKind != "syntax" || ev[0].LineNo != lineNo || ev[0].Line != text || !bare(ev[1]) {
			return fmt.Sprintf("specification: bad syntax on line %d %q; code delivered %+v", lineNo, text, ev)
		}
	case "badnumber":
		wn := chars(c.Rec.Num)
		if len(ev) != 2 || ev[0].T != "err" || ev[0].ErrKind != "number" || ev[0].LineNo != lineNo || ev[0].Line != text || ev[0].NumText != wn || !bare(ev[1]) {
			return fmt.Sprintf("specification: conversion error for %q on line %d %q; code delivered %+v", wn, lineNo, text, ev)
		}
	default:
		return "unknown classification " + c.Rec.K
	}
	return ""
}

// lexerReplay: the table line -> Lex(line) that TLC printed for every line up to the bound is
// compared with the real tokenizer, inside a record ("H:\n" + line), with CRLF line endings, and
// before any heading (orphan context).
func lexerReplay(e *env) error {
	kinds := map[string]int{}
	if cc := e.argStr("cc", "#"); cc != "#" {
		lexCfg = parser.Config{CommentChar: cc[0]}
		defer func() { lexCfg = parser.NewDefaultConfig() }()
	}
	return e.eachCase(func(raw json.RawMessage) error {
		var c lexCase
		if err := json.Unmarshal(raw, &c); err != nil {
			return err
		}
		e.sum.Cases++
		kinds[c.Rec.K]++
		e.sum.Extra["kinds"] = kinds
		if c.Rec.K != "skip" {
			e.sum.Nontrivial++
		}
		text := chars(c.Line)
		if e.sum.Cases%40000 == 7 {
			e.sample(map[string]interface{}{"line": text, "spec": c.Rec, "orphan": c.Orphan})
		}
		for _, nl := range []string{"\n", "\r\n"} {
			for _, final := range []bool{true, false} { // with and without a line break at the end of the file
				in := "H:" + nl + text
				if final {
					in += nl
				}
				ev, ret, p := runCallbackParser(strings.NewReader(in), "continue")
				e.sum.Runs++
				if p != nil {
					e.mismatch("lexer-panic", "parser/parser.go", fmt.Sprintf("panic %v on %q", p, in), map[string]interface{}{"case": c, "input": in})
					continue
				}
				if d := checkLexed(&c, text, ev, ret, 2); d != "" {
					e.mismatch("lexer-"+c.Rec.K, "parser/parser.go", d+fmt.Sprintf(" (input %q)", in), map[string]interface{}{"case": c, "input": in})
				}
			}
		}
		// orphan context: no heading before the line
		ev, ret, p := runCallbackParser(strings.NewReader(text+"\n"), "continue")
		e.sum.Runs++
		switch {
		case p != nil:
			e.mismatch("lexer-panic", "parser/parser.go", fmt.Sprintf("panic %v on %q", p, text), map[string]interface{}{"case": c})
		case ret != nil:
			e.mismatch("lexer-orphan", "parser/parser.go", fmt.Sprintf("parser returned %v on %q", ret, text), map[string]interface{}{"case": c})
		case c.Orphan == "head":
			if len(ev) != 1 || ev[0].T != "node" || ev[0].Header != chars(c.Rec.Name) {
				e.mismatch("lexer-orphan", "parser/parser.go", fmt.Sprintf("first line %q: specification: heading; code delivered %+v", text, ev), map[string]interface{}{"case": c})
			}
		default:
			if len(ev) != 0 {
				e.mismatch("lexer-orphan", "parser/parser.go", fmt.Sprintf("line %q before any heading: specification: ignored; code delivered %+v", text, ev), map[string]interface{}{"case": c})
			}
		}
		return nil
	})
}
