package verifdrv

import (
	"math/rand"
	"sort"
	"strings"
)

// The name pool.  Abstract names are integers whose order is the byte order of the concrete
// strings assigned to them, so the pool is kept sorted bytewise and an abstract universe of k
// names is concretised by a strictly increasing choice of k pool entries.
// Every entry survives the parser unchanged as a food / element name: no leading or trailing
// character of the parser's trim sets (\t space \n : " -), no leading '#', no line break, and the
// entry does not end in something that looks like a value separated by a blank.
var plainPool = []string{
	"A", "Beta", "C3", "Zz", "a", "aa", "ab", "b", "bread", "c", "calories", "d", "e", "egg", "f", "fat",
	"g", "h", "i", "j", "k", "l", "m", "n", "o", "p", "protein", "q", "r", "s", "t", "u", "v", "w", "x", "y", "z",
}

var oddPool = []string{
	"+extra/cheese", "=sum", "@work, \"menu\" 2x", "A b", "B,1", "C\"q\"c", "D;e", "E'e", "Zz top", "a b", "a,b", "a-b", "a:b", "a#b", "b  c", "c\td",
	"d\"e", "e(1)", "f=g", "g,\"h\"i", "h 1 h", "i.5e", "j*", "k%", "l&m", "m|n", "n\\o", "o{}", "p[]", "q<>r", "r?s", "s!t",
	"é", "éa", "ñandú", "ж", "жа б", "хляб, бял", "яйце", "ω3", "水", "水 果", "果汁,甜", "🍞", "é",
	"pizza: 12\" slice", "n #1\\2: x\ty",
	"aaaaaaaaaaaaaaaaaaaaaaaaaaaaaaaaaaaaaaaaaaaaaaaaaaaaaaaaaaaa", "long name that does not fit in the column at all",
}

func init() {
	sort.Strings(plainPool)
	sort.Strings(oddPool)
	plainPool = dedup(plainPool)
	oddPool = dedup(oddPool)
}

func dedup(s []string) []string {
	out := s[:0]
	for i, v := range s {
		if i == 0 || v != s[i-1] {
			out = append(out, v)
		}
	}
	return out
}

// mergedPool is plain and odd names together, sorted
func mergedPool() []string {
	m := append(append([]string{}, plainPool...), oddPool...)
	sort.Strings(m)
	return dedup(m)
}

// pickNames returns k names in strictly increasing byte order drawn from pool (index 1..k used; [0] unused)
func pickNames(rng *rand.Rand, pool []string, k int) []string {
	if k > len(pool) {
		panic("name pool too small")
	}
	idx := rng.Perm(len(pool))[:k]
	sort.Ints(idx)
	out := make([]string, k+1)
	for i, p := range idx {
		out[i+1] = pool[p]
	}
	return out
}

func init() {
	// self-check of the pool: a name that the parser would not return unchanged is a harness bug
	for _, n := range mergedPool() {
		if n == "" || strings.ContainsAny(n[:1], "\t \n:\"-#") || strings.ContainsAny(n[len(n)-1:], "\t \n:\"-") || strings.ContainsAny(n, "\n\r") {
			panic("bad pool name " + n)
		}
	}
}
