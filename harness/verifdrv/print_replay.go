package verifdrv

import (
	"encoding/json"
	"fmt"
	"math/rand"
	"os"
	"path/filepath"
	"strings"
	"time"
)

func init() {
	modes["print-replay"] = printReplay
}

var printLayouts = []string{"2006/01/02", "2006-01-02", "02.01.2006", "02 Jan 2006", "06/01/02", "2006-01-02 15:04"}

// documented note forms: "# name: value" and "# text" (letters, digits, inner blanks)
var docNotes = []struct{ text, name, value string }{
	{"# meal: lunch", "meal", "lunch"},
	{"# just some text", "", "just some text"},
	{"#weight : 81 kg", "weight", "81 kg"},
	{"#  place:  at home  ", "place", "at home"},
	{"# 2 cups", "", "2 cups"},
	{"# mood: felt 100% today", "mood", "felt 100% today"},
	{"# 50% of the %s plan (%d)", "", "50% of the %s plan (%d)"},
}

// printReplay (C14): every enumerated log, written in random layout variants with notes of the documented
// forms and under six date formats, is printed; the printed log must read back (print again, csv log,
// the parser itself) to the same days, merged foods, quantities and notes, and printing the printed log
// must reproduce it byte for byte.  Expected rows come from Reporters.tla (csvlog = merged entries).
func printReplay(e *env) error {
	stride := e.argInt("stride", 1)
	return e.parallelCases(func(idx int, raw json.RawMessage, rng *rand.Rand) error {
		c := &repCase{}
		if err := json.Unmarshal(raw, c); err != nil {
			return err
		}
		e.count(1, 0, 0)
		if stride > 1 && (idx+int(e.seed))%stride != 0 {
			return nil
		}
		maxID := 1
		for _, d := range c.Log {
			for _, en := range d.Es {
				if en[0] > maxID {
					maxID = en[0]
				}
			}
		}
		w := newWorld(rng, maxID, idx%2 == 0)
		cc := &concretiser{rng: rng}
		layout := printLayouts[idx%len(printLayouts)]
		base := time.Date(2021, 3, 3, 0, 0, 0, 0, time.UTC)
		yearStep := idx%5 == 3 // the second day: the same day of the year, one year later
		at := func(d int) time.Time {
			if yearStep && d == 2 {
				return base.AddDate(1, 0, 1)
			}
			return base.AddDate(0, 0, d)
		}
		dateOf := func(d int) string { return at(d).Format(layout) }
		isoOf := func(d int) string { return at(d).Format("2006-01-02") }
		var lg strings.Builder
		notes := map[int][][2]string{} // day index -> notes
		var blockStart []int
		for di, d := range c.Log {
			blockStart = append(blockStart, lg.Len())
			lg.WriteString(dateOf(d.Date) + ":\n")
			nn := rng.Intn(3)
			for i := 0; i < nn; i++ {
				n := docNotes[rng.Intn(len(docNotes))]
				lg.WriteString(cc.pick(indents) + n.text + "\n")
				notes[di] = append(notes[di], [2]string{n.name, n.value})
			}
			for _, en := range d.Es {
				lg.WriteString(cc.entryLine(w.names[en[0]], fmtNum(float64(en[1])*w.uq, rng)) + "\n")
			}
		}
		log := lg.String()
		global := []string{}
		if layout != "2006/01/02" {
			global = []string{"--date-format", layout}
		}
		if len(c.CsvLog) >= 2 {
			e.count(0, 0, 1)
		}
		rec := map[string]interface{}{"log": log, "layout": layout}
		run := func(in string, args ...string) (string, error) {
			out := &failWriter{limit: -1}
			res := runInProc(append(append([]string{}, global...), args...), map[string]fileSrc{"log.yaml": strSrc(in)}, out)
			e.count(0, 1, 0)
			if res.Panicked != nil {
				return "", fmt.Errorf("panic: %v", res.Panicked)
			}
			return out.buf.String(), res.Err
		}
		site := "cmd/hranoprovod-cli/internal/print"
		p1, err := run(log, "print")
		if err != nil {
			e.mismatch("report-fails", site, fmt.Sprintf("print fails on a readable log: %v", err), rec)
			return nil
		}
		rec["printed"] = p1
		// (1) the printed log is readable under the same options, and printing it reproduces it byte for byte
		p2, err := run(p1, "print")
		if err != nil {
			e.mismatch("printed-log-unreadable", site, fmt.Sprintf("print output cannot be read back under the same options (%v): %v", global, err), rec)
			return nil
		}
		if p2 != p1 {
			e.mismatch("print-not-idempotent", site, fmt.Sprintf("printing the printed log gives %q, not %q", p2, p1), rec)
		}
		// (2) same days, merged foods and quantities: csv log of the printed log = the specification's merged rows
		cl, err := run(p1, "csv", "log")
		if err != nil {
			e.mismatch("printed-log-unreadable", site, fmt.Sprintf("csv log cannot read the printed log: %v", err), rec)
			return nil
		}
		recs, perr := parseCSVStrict(cl)
		okr := perr == nil && len(recs) == len(c.CsvLog)
		for i := 0; okr && i < len(recs); i++ {
			v, okv := parseMilli(recs[i][2])
			okr = len(recs[i]) == 3 && recs[i][0] == isoOf(c.CsvLog[i].Date) && recs[i][1] == w.names[c.CsvLog[i].Name] && okv && v == w.milliQ(c.CsvLog[i].Qty)
		}
		if !okr {
			e.mismatch("printed-log-reads-back-differently", site, fmt.Sprintf("the printed log reads back as %q, specification predicts the merged rows %+v (names %q, unit %v)", recs, c.CsvLog, w.names, w.uq), rec)
		}
		// (3) notes of the documented forms survive, day by day (read with the parser itself)
		ev, ret, pn := runCallbackParser(strings.NewReader(p1), "stop")
		if ret != nil || pn != nil {
			e.mismatch("printed-log-unreadable", site, fmt.Sprintf("the parser rejects the printed log: %v %v", ret, pn), rec)
			return nil
		}
		if len(ev) != len(c.Log) {
			e.mismatch("printed-log-reads-back-differently", site, fmt.Sprintf("the printed log has %d records, the log %d days", len(ev), len(c.Log)), rec)
			return nil
		}
		for di := range c.Log {
			want := notes[di]
			got := ev[di].Notes
			same := len(got) == len(want)
			for i := 0; same && i < len(got); i++ {
				same = got[i] == want[i]
			}
			if !same {
				e.mismatch("print-loses-notes", site, fmt.Sprintf("day %d: notes read back as %q, the log has %q", di, got, want), rec)
				break
			}
			if ev[di].Header != dateOf(c.Log[di].Date) {
				e.mismatch("print-heading-format", site, fmt.Sprintf("day %d is headed %q in the printed log, the date format %q gives %q", di, ev[di].Header, layout, dateOf(c.Log[di].Date)), rec)
				break
			}
		}
		// (4) with a period: print -b D prints exactly the days from D on (same selection as csv log)
		if len(c.Log) == 2 {
			b := dateOf(c.Log[1].Date)
			pb, err1 := run(log, "print", "-b", b)
			cb, err2 := run(log, "csv", "log", "-b", b)
			if err1 == nil && err2 == nil {
				cp, err3 := run(pb, "csv", "log")
				if err3 != nil || cp != cb {
					e.mismatch("print-period-differs", site, fmt.Sprintf("print -b %s | csv log gives %q, csv log -b gives %q (%v)", b, cp, cb, err3), rec)
				}
			}
		}
		// (5) a log that is NOT in date order and repeats a date (day 2, day 1, day 2 again) under periods given at the
		// global position, on the sub-command, or both: exactly the blocks whose date lies in the period, each
		// printed as it is printed alone, in file order
		if len(c.Log) == 2 && c.Log[0].Date != c.Log[1].Date {
			b1, b2 := log[blockStart[0]:blockStart[1]], log[blockStart[1]:]
			pa, e1 := run(b1, "print")
			pb, e2 := run(b2, "print")
			if e1 == nil && e2 == nil {
				log3 := b2 + b1 + b2
				d1, d2 := dateOf(c.Log[0].Date), dateOf(c.Log[1].Date)
				lo, hi, plo, phi := d1, d2, pa, pb
				if at(c.Log[0].Date).After(at(c.Log[1].Date)) {
					lo, hi, plo, phi = d2, d1, pb, pa
				}
				_, _ = hi, plo
				// file order of log3: block2, block1, block2
				sel := func(keep1, keep2 bool) string {
					out := ""
					if keep2 {
						out += pb
					}
					if keep1 {
						out += pa
					}
					if keep2 {
						out += pb
					}
					return out
				}
				first1 := lo == d1 // block 1 carries the earlier date
				for _, v := range []struct {
					args []string
					want string
				}{
					{[]string{"print"}, sel(true, true)},
					{[]string{"print", "-e", lo}, sel(first1, !first1)},
					{[]string{"-e", lo, "print"}, sel(first1, !first1)},
					{[]string{"print", "-b", hi}, sel(!first1, first1)},
					{[]string{"-b", hi, "print"}, sel(!first1, first1)},
					{[]string{"-b", lo, "print", "-e", lo}, sel(first1, !first1)},
					{[]string{"-b", hi, "-e", lo, "print", "-b", lo, "-e", hi}, sel(true, true)}, // the sub-command's period overrides the (empty) global one
				} {
					got, err := run(log3, v.args...)
					if err != nil || got != v.want {
						e.mismatch("print-period-differs", site, fmt.Sprintf("%v on the log (day %s, day %s, day %s again) prints %q (err %v); the blocks of the period printed alone give %q", v.args, d2, d1, d2, got, err, v.want), rec)
						break
					}
				}
				_ = phi
			}
		}
		// the same with the date format coming from the configuration file or the environment (real binary)
		if bin := os.Getenv("VERIF_BIN"); bin != "" && layout != "2006/01/02" && idx%37 == 0 {
			dir := filepath.Join(os.Getenv("VERIF_SCRATCH"), fmt.Sprintf("print-%d", idx))
			os.MkdirAll(dir, 0o755)
			defer os.RemoveAll(dir)
			writeFile(filepath.Join(dir, "log.yaml"), log)
			writeFile(filepath.Join(dir, "cfg.ini"), "[Global]\nDateFormat="+layout+"\n")
			for _, how := range []string{"config", "env"} {
				var env, pre []string
				if how == "config" {
					pre = []string{"-c", filepath.Join(dir, "cfg.ini")}
				} else {
					env = []string{"HR_DATE_FORMAT=" + layout, "TZ=Asia/Tokyo"} // and a zone east of UTC
				}
				b1 := runBinary(dir, env, nil, append(append([]string{}, pre...), "print")...)
				e.count(0, 1, 0)
				if b1.Exit != 0 {
					e.mismatch("report-fails", site, fmt.Sprintf("print with the date format from the %s fails: %s", how, firstLine(b1.Stderr)), rec)
					continue
				}
				writeFile(filepath.Join(dir, "printed.yaml"), b1.Stdout)
				b2 := runBinary(dir, env, nil, append(append([]string{}, pre...), "-l", filepath.Join(dir, "printed.yaml"), "print")...)
				e.count(0, 1, 0)
				if b2.Exit != 0 || b2.Stdout != b1.Stdout || b1.Stdout != p1 {
					e.mismatch("printed-log-unreadable", site, fmt.Sprintf("date format %q from the %s: print writes %q; reading it back under the same options: exit %d %s", layout, how, b1.Stdout, b2.Exit, firstLine(b2.Stderr)), rec)
				}
			}
		}
		if idx%3000 == 4 {
			e.sample(map[string]interface{}{"log": log, "date_format": layout, "printed": p1})
		}
		return nil
	})
}

func init() {
	modes["print-decimal"] = printDecimal
}

// printDecimal: quantities with more than two decimals come back from print rounded to two decimals:
// |read back - exact| <= 0.005 (+ float slack), two decimals, and printing again changes nothing
func printDecimal(e *env) error {
	files := e.argInt("files", 200)
	for f := 0; f < files; f++ {
		names := pickNames(e.rng, mergedPool(), 5)
		cc := &concretiser{rng: e.rng}
		var lg strings.Builder
		lits := map[string]string{}
		var order []string
		lg.WriteString("2021/08/09:\n")
		for i := 1; i <= 1+e.rng.Intn(4); i++ {
			lit := decLits[e.rng.Intn(len(decLits))]
			if _, dup := lits[names[i]]; dup {
				continue
			}
			lits[names[i]] = lit
			order = append(order, names[i])
			lg.WriteString(cc.entryLine(names[i], lit) + "\n")
		}
		run := func(in string, args ...string) (string, error) {
			out := &failWriter{limit: -1}
			res := runInProc(args, map[string]fileSrc{"log.yaml": strSrc(in)}, out)
			e.sum.Runs++
			return out.buf.String(), res.Err
		}
		rec := map[string]interface{}{"log": lg.String()}
		p1, err := run(lg.String(), "print")
		if err != nil {
			e.mismatch("report-fails", "cmd/hranoprovod-cli/internal/print", fmt.Sprintf("print fails: %v", err), rec)
			continue
		}
		p2, err := run(p1, "print")
		if err != nil || p2 != p1 {
			e.mismatch("print-not-idempotent", "cmd/hranoprovod-cli/internal/print", fmt.Sprintf("print of the printed log: %q vs %q (%v)", p2, p1, err), rec)
			continue
		}
		ev, ret, _ := runCallbackParser(strings.NewReader(p1), "stop")
		if ret != nil || len(ev) != 1 || len(ev[0].Elements) != len(order) {
			e.mismatch("printed-log-reads-back-differently", "cmd/hranoprovod-cli/internal/print", fmt.Sprintf("printed log %q reads back as %+v (%v)", p1, ev, ret), rec)
			continue
		}
		e.sum.Nontrivial++
		for i, n := range order {
			exact, _ := newRat(lits[n])
			got := fmt.Sprintf("%.2f", ev[0].Elements[i].Value)
			if ev[0].Elements[i].Name != n || !withinHalfUnit(got, exact, 2) || !strings.Contains(p1, ": "+got+"\n") {
				e.mismatch("print-quantity-not-rounded-to-two-decimals", "cmd/hranoprovod-cli/internal/print", fmt.Sprintf("%q: %s is printed / read back as %s", n, lits[n], got), rec)
				break
			}
		}
	}
	return nil
}
