package verifdrv

import (
	"encoding/json"
	"fmt"
	"math/big"
	"math/rand"
	"regexp"
	"strings"
	"unicode/utf8"
)

func init() {
	modes["presentation-replay"] = presentationReplay
}

var coloredNum = regexp.MustCompile("(\x1b\\[3[12]m)?( *-?\\d+\\.\\d\\d)(\x1b\\[0m)?")

// checkColours: every printed amount is red when the amount is positive, green when negative, uncoloured
// when zero - the amount itself (the specification's value), not its printed rounding: 0.004 prints
// as 0.00 and is still positive.  signs = the specification's figures in print order.
func checkColours(out string, signs []int) string {
	k := 0
	for _, line := range strings.Split(out, "\n") {
		if !strings.HasPrefix(line, "\t") && !strings.HasPrefix(line, "  ") {
			continue // date lines and headers
		}
		for _, m := range coloredNum.FindAllStringSubmatch(line, -1) {
			if k >= len(signs) {
				return fmt.Sprintf("more amounts printed than the %d the specification predicts (line %q)", len(signs), line)
			}
			want := ""
			if signs[k] > 0 {
				want = "\x1b[31m"
			} else if signs[k] < 0 {
				want = "\x1b[32m"
			}
			k++
			if m[1] != want || (want != "" && m[3] != "\x1b[0m") || (want == "" && m[3] != "") {
				return fmt.Sprintf("amount %q (sign of the true amount: %d) in line %q is coloured %q, expected %q", m[2], signs[k-1], line, m[1], want)
			}
		}
	}
	if k != len(signs) {
		return fmt.Sprintf("%d amounts printed, the specification predicts %d", k, len(signs))
	}
	return ""
}

// the specification's figures of a register in print order: per day the foods (quantity, ingredient
// amounts) and then the totals (positive, negative, sum)
func regSigns(days []absRegDay, foods, totals bool) []int {
	var s []int
	for _, d := range days {
		if foods {
			for _, f := range d.Foods {
				s = append(s, f.Qty)
				for _, in := range f.Ingr {
					s = append(s, in[1])
				}
			}
		}
		if totals {
			for _, t := range d.Totals {
				s = append(s, t.Pos, t.Neg, t.Sum)
			}
		}
	}
	return s
}

// shortenedOK: s is orig unchanged if it fits in w runes, else prefix + "…" + suffix of orig within w runes
func shortenedOK(s, orig string, w int) bool {
	if utf8.RuneCountInString(orig) <= w {
		return s == orig
	}
	if utf8.RuneCountInString(s) > w {
		return false
	}
	i := strings.Index(s, "…")
	if i < 0 {
		return false
	}
	pre, suf := s[:i], s[i+len("…"):]
	return pre != "" && suf != "" && strings.HasPrefix(orig, pre) && strings.HasSuffix(orig, suf)
}

func dayChunks(out string, dates map[string]bool) []string {
	var chunks []string
	for _, line := range strings.SplitAfter(out, "\n") {
		if dates[strings.TrimSuffix(line, "\n")] || len(chunks) == 0 {
			chunks = append(chunks, "")
		}
		chunks[len(chunks)-1] += line
	}
	return chunks
}

// presentationReplay (C15): for every enumerated log (names of 19..40 runes so that shortening bites), the
// register is produced under every combination of colour x template x shorten x totals mode, with the
// colour switch at the global or the sub-command position; all must show the records of the plain
// default rendering (= the specification's chunks, checked by C02), shortened names must keep a prefix
// and a suffix within the column, coloured output must equal plain output once escapes are removed
// with red / green / none by sign, and default = no-totals body + totals-only tail per day.
func presentationReplay(e *env) error {
	stride := e.argInt("stride", 1)
	lengths := []int{19, 20, 21, 26, 27, 28, 40, 5}
	return e.parallelCases(func(idx int, raw json.RawMessage, rng *rand.Rand) error {
		c := &repCase{}
		if err := json.Unmarshal(raw, c); err != nil {
			return err
		}
		e.count(1, 0, 0)
		if stride > 1 && (idx+int(e.seed))%stride != 0 {
			return nil
		}
		maxID := c.Element
		for _, r := range c.Book {
			if r.Name > maxID {
				maxID = r.Name
			}
			for _, el := range r.Els {
				if el[0] > maxID {
					maxID = el[0]
				}
			}
		}
		for _, d := range c.Log {
			for _, en := range d.Es {
				if en[0] > maxID {
					maxID = en[0]
				}
			}
		}
		w := newWorld(rng, maxID, false)
		w.ua = 1
		for i := 1; i <= maxID; i++ {
			L := lengths[(i+idx)%len(lengths)]
			filler := []string{"x", "é", "水", "y z"}[(i+idx/3)%4]
			n := string(rune('a'+i)) + "/"
			for utf8.RuneCountInString(n) < L-1 {
				n += filler
			}
			for utf8.RuneCountInString(n) > L-1 {
				_, sz := utf8.DecodeLastRuneInString(n)
				n = n[:len(n)-sz]
			}
			w.names[i] = n + "Z"
		}
		// every fourth case: quantities of a few thousandths (they print as 0.00 or 0.01 but keep their sign)
		if idx%4 == 1 {
			w.uqS = []string{"0.004", "0.002", "1.004"}[rng.Intn(3)]
			f, _ := new(big.Rat).SetString(w.uqS)
			w.uq, _ = f.Float64()
		}
		cc := &concretiser{rng: rng}
		x := &cmpCtx{e: e, c: c, w: w}
		x.book = w.bookText(c, cc)
		x.log = w.logText(c.Log, cc)
		site := "cmd/hranoprovod-cli/internal/reporter"
		e.count(0, 0, 1)
		plainOut, ok := x.run("--no-color", "reg")
		if !ok {
			return nil
		}
		base, err := parseRegister(plainOut, "default")
		if err != nil {
			x.bad("register-unparsable", site, err.Error())
			return nil
		}
		x.compareRegister("reg/default", base, c.Reg, true, true)
		dates := map[string]bool{}
		for _, d := range base {
			dates[d.Date] = true
		}
		type tm struct {
			name, parser string
			args         []string
		}
		templates := []tm{{"default", "default", nil}, {"left", "left", []string{"--internal-template-name", "left-aligned"}}, {"old", "default", []string{"--use-old-reg-reporter"}}}
		totalsModes := []struct {
			name string
			args []string
		}{{"both", nil}, {"no-totals", []string{"--no-totals"}}, {"totals-only", []string{"--totals-only"}}}
		plainByMode := map[string]string{}
		for _, t := range templates {
			for _, shorten := range []bool{false, true} {
				for _, tmode := range totalsModes {
					for _, colour := range []string{"off-global", "off-sub", "on"} {
						var args []string
						if colour == "off-global" {
							args = append(args, "--no-color")
						}
						args = append(args, "reg")
						if colour == "off-sub" {
							args = append(args, "--no-color")
						}
						args = append(args, t.args...)
						if shorten {
							args = append(args, "--shorten")
						}
						args = append(args, tmode.args...)
						out, ok := x.run(args...)
						if !ok {
							continue
						}
						key := fmt.Sprintf("%s/%v/%s", t.name, shorten, tmode.name)
						if colour == "on" {
							if d := checkColours(out, regSigns(c.Reg, tmode.name != "totals-only", tmode.name != "no-totals")); d != "" {
								x.bad("colour-not-by-sign", site, fmt.Sprintf("%v: %s", args, d))
							}
							if p, seen := plainByMode[key]; seen && stripAnsi(out) != p {
								x.bad("coloured-differs-from-plain", site, fmt.Sprintf("%v: output without escape codes %q differs from the --no-color output %q", args, stripAnsi(out), p))
							}
							continue
						}
						if strings.Contains(out, "\x1b[") {
							x.bad("coloured-differs-from-plain", site, fmt.Sprintf("%v prints escape codes", args))
							continue
						}
						if p, seen := plainByMode[key]; seen {
							if p != out {
								x.bad("flag-position-changes-output", site, fmt.Sprintf("%v prints %q; with --no-color at the other position %q", args, out, p))
							}
							continue
						}
						plainByMode[key] = out
						days, err := parseRegister(out, t.parser)
						if err != nil {
							x.bad("register-unparsable", site, fmt.Sprintf("%v: %v", args, err))
							continue
						}
						// same records as the plain default rendering
						okRec := len(days) == len(base)
						for i := 0; okRec && i < len(days); i++ {
							b, g := base[i], days[i]
							okRec = g.Date == b.Date
							wantFoods, wantTotals := b.Foods, b.Totals
							if tmode.name == "totals-only" {
								wantFoods = nil
							}
							if tmode.name == "no-totals" {
								wantTotals = nil
							}
							okRec = okRec && len(g.Foods) == len(wantFoods) && len(g.Totals) == len(wantTotals)
							nameOK := func(got, orig string, width int) bool {
								if shorten && t.name == "default" {
									return shortenedOK(got, orig, width)
								}
								return got == orig
							}
							for j := 0; okRec && j < len(wantFoods); j++ {
								okRec = nameOK(g.Foods[j].Name, wantFoods[j].Name, 27) && g.Foods[j].Qty == wantFoods[j].Qty && len(g.Foods[j].Ingr) == len(wantFoods[j].Ingr)
								for k := 0; okRec && k < len(wantFoods[j].Ingr); k++ {
									okRec = nameOK(g.Foods[j].Ingr[k].Name, wantFoods[j].Ingr[k].Name, 20) && g.Foods[j].Ingr[k].Val == wantFoods[j].Ingr[k].Val
								}
							}
							for j := 0; okRec && j < len(wantTotals); j++ {
								okRec = nameOK(g.Totals[j].Name, wantTotals[j].Name, 20) && g.Totals[j].Pos == wantTotals[j].Pos && g.Totals[j].Neg == wantTotals[j].Neg && g.Totals[j].Sum == wantTotals[j].Sum
							}
						}
						if !okRec {
							x.bad("presentation-changes-records", site, fmt.Sprintf("%v shows %+v; the plain default rendering shows %+v", args, days, base))
						}
					}
				}
			}
		}
		// default = per day: date line, the no-totals body, the totals-only tail
		for _, t := range templates {
			both, nt, to := plainByMode[t.name+"/false/both"], plainByMode[t.name+"/false/no-totals"], plainByMode[t.name+"/false/totals-only"]
			cb, cn, ct := dayChunks(both, dates), dayChunks(nt, dates), dayChunks(to, dates)
			okI := len(cb) == len(cn) && len(cb) == len(ct)
			for i := 0; okI && i < len(cb); i++ {
				nl := strings.Index(cn[i], "\n") + 1
				tl := strings.Index(ct[i], "\n") + 1
				okI = nl > 0 && tl > 0 && cn[i][:nl] == ct[i][:tl] && cb[i] == cn[i]+ct[i][tl:]
			}
			if !okI && both != "" {
				x.bad("default-not-interleave-of-no-totals-and-totals-only", site, fmt.Sprintf("template %s: default %q, no-totals %q, totals-only %q", t.name, both, nt, to))
			}
		}
		// the single-element / per-food / single-food views are selections of the same records: the template,
		// shorten and totals switches must not change what they show (compared up to white space)
		fields := func(o string) string { return strings.Join(strings.Fields(o), " ") }
		viewEl := w.names[c.Element]
		viewFood := ""
		if len(c.Log) > 0 && len(c.Log[0].Es) > 0 {
			viewFood = w.names[c.Log[0].Es[0][0]]
		}
		for _, view := range [][]string{{"-s", viewEl}, {"-s", viewEl, "-g"}, {"-f", viewFood}} {
			if view[1] == "" || strings.ContainsAny(view[1], "()[]{}*+?|\\.^$") { // -f takes a regular expression
				continue
			}
			basic, ok := x.run(append([]string{"--no-color", "reg"}, view...)...)
			if !ok {
				continue
			}
			for _, fl := range [][]string{{"--use-old-reg-reporter"}, {"--internal-template-name", "left-aligned"}, {"--shorten"}, {"--no-totals"}, {"--totals-only"}} {
				o, ok := x.run(append(append([]string{"--no-color", "reg"}, view...), fl...)...)
				if ok && fields(o) != fields(basic) {
					x.bad("presentation-changes-records", site, fmt.Sprintf("reg %v %v shows %q; without the presentation switch it shows %q", view, fl, o, basic))
					break
				}
			}
		}
		// --desc changes the order only
		for _, q := range [][]string{{"report", "quantity"}} {
			a, ok1 := x.run(q...)
			d, ok2 := x.run(append(append([]string{}, q...), "--desc")...)
			if ok1 && ok2 {
				la := strings.Split(strings.TrimSuffix(a, "\n"), "\n")
				ld := strings.Split(strings.TrimSuffix(d, "\n"), "\n")
				cnt := map[string]int{}
				for _, l := range la {
					cnt[l]++
				}
				for _, l := range ld {
					cnt[l]--
				}
				same := len(la) == len(ld)
				for _, v := range cnt {
					if v != 0 {
						same = false
					}
				}
				if !same {
					x.bad("desc-changes-rows", "cmd/hranoprovod-cli/internal/report", fmt.Sprintf("%v --desc prints rows %q, ascending %q", q, ld, la))
				}
			}
		}
		if idx%3000 == 5 {
			e.sample(map[string]interface{}{"log": x.log, "book": x.book, "plain_default": plainOut})
		}
		return nil
	})
}
