\* C01 quick (a): 2 recipes x <= 3 ingredients over 4 names, every visiting order, N = 10
CONSTANTS
  Recipes = {1, 2}
  Leaves = {3, 4}
  MaxIngr = 3
  Depths = {10}
  Impl = "repaired"
  CoefTable <- CoefPrimes
  Dump = TRUE
INIT Init
NEXT Next
INVARIANTS ResolvedIsSumOfProducts NoRecipeLeft SortedNoDuplicates Idempotent KeysStable DepthErrorIffHeight DumpInv
PROPERTY ResolvedStaysResolved
CHECK_DEADLOCK FALSE
