\* summary DATE / keyword under every zone offset from -12h to +14h in half-hour steps
CONSTANTS
  Days <- DaysB
  MaxLog = 0
  Todays = {35, 5}
  Zones <- HalfHourZones
  BoundKinds <- AllBounds
  Positions = {"global"}
  Kinds = {"summary"}
  LogSet <- LogB
  Dump = TRUE
INIT Init
NEXT Next
INVARIANTS SummarySelectsThatDay FileOrderKept DumpInv
