\* C01 thorough (b): 3 recipes x <= 2 ingredients over 6 names, mixed coefficients
CONSTANTS
  Recipes = {1, 2, 3}
  Leaves = {4, 5, 6}
  MaxIngr = 2
  Depths = {10}
  Impl = "repaired"
  CoefTable <- CoefMixed
  Dump = TRUE
INIT Init
NEXT Next
INVARIANTS ResolvedIsSumOfProducts NoRecipeLeft SortedNoDuplicates Idempotent KeysStable DepthErrorIffHeight DumpInv
PROPERTY ResolvedStaysResolved
CHECK_DEADLOCK FALSE
