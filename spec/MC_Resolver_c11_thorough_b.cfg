\* C11 thorough (b): 3 recipes x <= 2 ingredients over 5 names, limits 1..4, every order
CONSTANTS
  Recipes = {1, 2, 3}
  Leaves = {4, 5}
  MaxIngr = 2
  Depths = {1, 2, 3, 4}
  Impl = "repaired"
  CoefTable <- CoefPrimes
  Dump = TRUE
INIT Init
NEXT Next
INVARIANTS ResolvedIsSumOfProducts NoRecipeLeft SortedNoDuplicates Idempotent KeysStable DepthErrorIffHeight DumpInv
PROPERTY ResolvedStaysResolved
CHECK_DEADLOCK FALSE
