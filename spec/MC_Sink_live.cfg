CONSTANTS
  B = 4
  MaxWrite = 3
  MaxTotal = 6
  Impl = "repaired"
SPECIFICATION Spec
PROPERTY Terminates
