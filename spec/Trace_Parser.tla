---------------------------- MODULE Trace_Parser ----------------------------
(***************************************************************************)
(* Trace validation for Parser.tla.  Recorded from the real                *)
(* parser.ParseStreamCallback (any file, any callback policy, any reader   *)
(* fault):                                                                 *)
(*   {"ev":"Init","lines":[..abstract lines..],"policy":{..},"fault":{..}} *)
(*   {"ev":"Node","header":h,"elements":[[n,v],..],"notes":[t,..]}         *)
(*   {"ev":"Err","kind":"badsyntax"|"badnumber","line":N}                  *)
(*   {"ev":"Exit","ret":{"t":"nil"|"cbErr"|"ioErr"} | {"t":"err",kind,line}}*)
(* Lines that produce no callback are silent steps of the specification    *)
(* (grain of atomicity: one spec action per scanned line, one trace event  *)
(* per callback), so acceptance is a high-water mark of consumed events.   *)
(***************************************************************************)
EXTENDS Parser, IOUtils

VARIABLES l, exited

Trace == ndJsonDeserialize(IOEnv.VERIF_TRACE)
tvars == <<vars, l, exited>>

EventOf(rec) == IF rec.ev = "Node"
                THEN [t |-> "node", header |-> rec.header, elements |-> rec.elements, notes |-> rec.notes]
                ELSE [t |-> "err", kind |-> rec.kind, line |-> rec.line]

LoadInit(rec) ==
  /\ lines = rec.lines /\ policy = rec.policy /\ fault = rec.fault
  /\ i = 0 /\ node = NoNode /\ cb = <<>> /\ nodes = 0 /\ ret = R("none") /\ failed = FALSE

TInit == /\ l = 2 /\ exited = FALSE /\ Trace[1].ev = "Init" /\ LoadInit(Trace[1]) /\ TLCSet(1, 2)

Step == ScanLine \/ ScanPartial \/ ScanFails \/ Finish \/ ReturnScanError \/ SilentTruncate

\* a step of the specification that delivers no callback: not visible in the trace
TSilent == /\ ~exited /\ Step /\ cb' = cb /\ l' = l /\ UNCHANGED exited

\* a step that delivers exactly the recorded callback
TEvent ==
  /\ l <= Len(Trace) /\ Trace[l].ev \in {"Node", "Err"}
  /\ Step
  /\ cb' = Append(cb, EventOf(Trace[l]))
  /\ l' = l + 1
  /\ ~exited /\ UNCHANGED exited

\* the parser returned: the recorded result is the specification's
TExit ==
  /\ l <= Len(Trace) /\ Trace[l].ev = "Exit"
  /\ ret.t # "none" /\ ~exited
  /\ ret = Trace[l].ret
  /\ exited' = TRUE
  /\ l' = l + 1
  /\ UNCHANGED vars

TReset ==
  /\ l <= Len(Trace) /\ Trace[l].ev = "Init"
  /\ exited /\ exited' = FALSE
  /\ lines' = Trace[l].lines /\ policy' = Trace[l].policy /\ fault' = Trace[l].fault
  /\ i' = 0 /\ node' = NoNode /\ cb' = <<>> /\ nodes' = 0 /\ ret' = R("none") /\ failed' = FALSE
  /\ l' = l + 1

TNext == TSilent \/ TEvent \/ TExit \/ TReset
TSpec == TInit /\ [][TNext]_tvars

\* high-water mark of consumed trace lines (-workers 1)
Mark == TLCSet(1, IF l > TLCGet(1) THEN l ELSE TLCGet(1))
Rejected == IF TLCGet(1) = Len(Trace) + 1 THEN TRUE
            ELSE PrintT(<<"REJECTED-AT-LINE", TLCGet(1)>>) /\ FALSE

\* invariants of Parser.tla that make sense on an in-flight state of any recorded run
TTypeOK == i \in 0..Len(lines)
=============================================================================
