--------------------------------- MODULE Cli ---------------------------------
(***************************************************************************)
(* The command pipeline of hranoprovod-cli:                                *)
(*                                                                         *)
(*   open files -> parse book -> resolve -> walk log (parse, date, Process *)
(*   per day) -> Flush -> exit status                                      *)
(*                                                                         *)
(* one action per stage, for every command shape.  Files are abstracted to *)
(* what decides control flow: how many records they hold and where (at     *)
(* which record) the first problem sits - a malformed entry, a heading     *)
(* that is no date, a failed read, a missing file, a book nested too       *)
(* deep.  The output sink either works or fails (the report is buffered,   *)
(* so a failing sink is noticed at Flush, or at a Process whose output     *)
(* crosses the buffer - both are modelled).                                *)
(*                                                                         *)
(* Which command reads which file, in which order, whether it resolves,    *)
(* how each error reaches the exit status is the command table below; it   *)
(* is bound to the code by replaying every terminal state on the real      *)
(* commands (in-process and on the binary).                                *)
(*                                                                         *)
(* Impl = "pinned": csv database and stats do not test the callback's      *)
(* error (nil dereference -> panic; stats swallows book errors), a failed  *)
(* read is end of file, and deferred Flush errors are dropped.             *)
(***************************************************************************)
EXTENDS Integers, Sequences, FiniteSets, TLC, Json

CONSTANTS Cmds,       \* command shapes explored
          MaxRecs,    \* files hold 0..MaxRecs records
          Impl,
          Dump

AllCmds == {"reg", "reg-old", "reg-left", "reg-s", "reg-sg", "reg-f", "bal", "bal-c", "bal-cl", "bal-s",
            "csv-log", "csv-db", "csv-dbres", "print", "summary",
            "rep-unres", "rep-qty", "rep-tot", "rep-elem", "stats", "lint", "lint-s",
            \* the same walk with an end date that only the FIRST record satisfies: the rest of the log is still
            \* read (and must still be readable and well formed), it is only filtered out
            "reg-e", "bal-e", "csv-log-e", "print-e", "rep-qty-e", "rep-tot-e"}

UsesDb(c)  == c \in {"reg-e", "bal-e", "rep-tot-e", "reg", "reg-old", "reg-left", "reg-s", "reg-sg", "reg-f", "bal", "bal-c", "bal-cl", "bal-s",
                     "csv-db", "csv-dbres", "summary", "rep-unres", "rep-tot", "rep-elem", "stats"}
Resolves(c) == UsesDb(c) /\ c \notin {"csv-db", "stats"}
UsesLog(c) == c \in {"reg-e", "bal-e", "csv-log-e", "print-e", "rep-qty-e", "rep-tot-e", "reg", "reg-old", "reg-left", "reg-s", "reg-sg", "reg-f", "bal", "bal-c", "bal-cl", "bal-s",
                     "csv-log", "print", "summary", "rep-unres", "rep-qty", "rep-tot", "stats"}
IsLint(c)  == c \in {"lint", "lint-s"}
LogFirst(c) == c = "stats"                  \* stats reads the log before the book
DatesParsed(c) == UsesLog(c) /\ c # "stats" \* stats ignores headings that are no dates
\* per-day reporters write while walking; period reporters write everything in Flush
PerDay(c) == c \in {"reg-e", "csv-log-e", "print-e", "reg", "reg-old", "reg-left", "reg-s", "reg-f", "csv-log", "print", "summary"}

\* a file: n records; problem p at record position at (1..n+1: before/inside that record; the
\* records before it are complete)
Problems == {"none", "malformed", "baddate", "unreadable", "missing", "deep"}
FileStates(role) ==
  [n : 0..MaxRecs, p : {"none"}, at : {0}]
  \cup [n : 1..MaxRecs, p : {"malformed"} \cup (IF role = "log" THEN {"baddate"} ELSE {"deep"}), at : 1..MaxRecs]
  \cup [n : 0..MaxRecs, p : {"unreadable"}, at : 1..(MaxRecs + 1)]
  \cup [n : {0}, p : {"missing"}, at : {0}]

VARIABLES cmd, book, log, sinkOk,
          pc,       \* "open" | "book" | "resolve" | "log" | "flush" | "exit" | "panic"
          first,    \* which file is read first ("book" | "log"), then the other
          err,      \* the error that reaches main ("none" or [kind, file, at])
          days,     \* log records processed so far
          lost      \* some output was produced but could not be written

vars == <<cmd, book, log, sinkOk, pc, first, err, days, lost>>

None == [kind |-> "none"]
E(kind, file, at) == [kind |-> kind, file |-> file, at |-> at]

Valid(f) == f.p \in {"none", "missing"} \/ f.at <= f.n + (IF f.p = "unreadable" THEN 1 ELSE 0)

Init ==
  /\ cmd \in Cmds
  /\ book \in {f \in FileStates("book") : Valid(f)}
  /\ log \in {f \in FileStates("log") : Valid(f)}
  /\ (~UsesDb(cmd) /\ ~IsLint(cmd)) => book = [n |-> 0, p |-> "none", at |-> 0]
  /\ (~UsesLog(cmd) /\ ~IsLint(cmd)) => log = [n |-> 0, p |-> "none", at |-> 0]
  /\ IsLint(cmd) => book = [n |-> 0, p |-> "none", at |-> 0] /\ log.p # "baddate"   \* lint: `log` is the linted file
  /\ sinkOk \in BOOLEAN
  /\ pc = "open" /\ first = (IF LogFirst(cmd) THEN "log" ELSE "book")
  /\ err = None /\ days = 0 /\ lost = FALSE

Fail(e) == /\ err' = (IF err = None THEN e ELSE err) /\ pc' = "flush"
Stay == UNCHANGED <<cmd, book, log, sinkOk, first>>

\* WithFileReaders opens every file the command names before anything is parsed
Open ==
  /\ pc = "open"
  /\ IF UsesDb(cmd) /\ book.p = "missing" /\ cmd # "stats" THEN err' = E("missing", "book", 0) /\ pc' = "exit"
     ELSE IF (UsesLog(cmd) \/ IsLint(cmd)) /\ log.p = "missing" /\ cmd # "stats" THEN err' = E("missing", "log", 0) /\ pc' = "exit"
     ELSE err' = err /\ pc' = (IF IsLint(cmd) THEN "log" ELSE IF first = "book" /\ UsesDb(cmd) THEN "book" ELSE IF UsesLog(cmd) THEN "log" ELSE "book")
  /\ UNCHANGED <<days, lost>> /\ Stay

\* what parsing file f yields for a command that stops on the first error
ParseOutcome(f, file) ==
  CASE f.p = "malformed"  -> E("malformed", file, f.at)
    [] f.p = "unreadable" -> (IF Impl = "pinned" THEN None ELSE E("unreadable", file, f.at))
    [] f.p = "missing"    -> E("missing", file, 0)
    [] OTHER -> None

AfterBook == IF LogFirst(cmd) THEN "flush" ELSE IF Resolves(cmd) THEN "resolve" ELSE IF UsesLog(cmd) THEN "log" ELSE "flush"

ParseBook ==
  /\ pc = "book"
  /\ LET o == ParseOutcome(book, "book") IN
     IF o # None
     THEN IF Impl = "pinned" /\ cmd = "csv-db" /\ o.kind = "malformed" THEN pc' = "panic" /\ UNCHANGED err
          ELSE IF Impl = "pinned" /\ cmd = "stats" /\ o.kind = "malformed" THEN pc' = AfterBook /\ UNCHANGED err
          ELSE /\ err' = o
               \* csv database writes rows while parsing: its reporter is flushed on the way out;
               \* every other command fails before a reporter exists
               /\ pc' = (IF cmd = "csv-db" THEN "flush" ELSE "exit")
     ELSE pc' = AfterBook /\ UNCHANGED err
  /\ UNCHANGED <<days, lost>> /\ Stay

Resolve ==
  /\ pc = "resolve"
  /\ IF book.p = "deep" THEN err' = E("deep", "book", book.at) /\ pc' = "exit"
     ELSE UNCHANGED err /\ pc' = (IF UsesLog(cmd) THEN "log" ELSE "flush")
  /\ UNCHANGED <<days, lost>> /\ Stay

AfterLog == IF LogFirst(cmd) /\ UsesDb(cmd) THEN "book" ELSE "flush"

\* the record after the `days` processed so far cannot be processed
Blocks ==
  /\ log.at = days + 1
  /\ \/ log.p \in {"malformed", "unreadable"}
     \/ log.p = "baddate" /\ DatesParsed(cmd)

\* one record of the log goes through date parsing, the filter and Process
Day ==
  /\ pc = "log" /\ ~IsLint(cmd)
  /\ days < log.n /\ ~Blocks /\ log.p # "missing"
  /\ days' = days + 1
  /\ UNCHANGED <<pc, err, lost>> /\ Stay

\* the walk ends: at the problem record, or at the end of the file
LogEnds ==
  /\ pc = "log" /\ ~IsLint(cmd)
  /\ \/ /\ log.p = "missing" \/ (Blocks /\ log.p \in {"malformed", "unreadable"})
        /\ LET o == ParseOutcome(log, "log") IN
           IF o = None THEN pc' = AfterLog /\ UNCHANGED err              \* pinned: truncated silently
           ELSE IF Impl = "pinned" /\ cmd = "stats" /\ o.kind = "malformed" THEN pc' = "panic" /\ UNCHANGED err
           ELSE err' = o /\ pc' = (IF cmd = "stats" THEN "exit" ELSE "flush")
     \/ /\ Blocks /\ log.p = "baddate"
        /\ err' = E("baddate", "log", log.at) /\ pc' = "flush"
     \/ /\ days = log.n /\ ~Blocks /\ log.p # "missing"
        /\ pc' = AfterLog /\ UNCHANGED err
  /\ UNCHANGED <<days, lost>> /\ Stay

\* lint never stops: every malformed line is printed, a failed read is returned
Lint ==
  /\ pc = "log" /\ IsLint(cmd)
  /\ IF log.p = "unreadable" /\ Impl = "repaired" THEN err' = E("unreadable", "log", log.at) ELSE UNCHANGED err
  /\ pc' = "flush"
  /\ UNCHANGED <<days, lost>> /\ Stay

\* records of a file that reach the callback: those before the first malformed / unreadable one
Delivered(f) == IF f.p \in {"malformed", "unreadable"} THEN f.at - 1 ELSE f.n

\* does the command have anything to write?  (every record of the generated inputs has an entry that
\* the command shows: see the harness)
HasOutput ==
  CASE IsLint(cmd) -> (log.p = "malformed") \/ (cmd = "lint" /\ log.p = "none")
    [] cmd = "stats" -> err = None
    [] cmd = "csv-db" -> Delivered(book) > 0
    [] cmd \in {"csv-dbres", "rep-elem"} -> err = None /\ book.n > 0
    [] cmd = "reg-sg" -> days > 0 /\ book.n > 0    \* rows only for foods the book defines
    [] cmd = "bal-s" -> TRUE                       \* the grand total line is always written
    [] OTHER -> days > 0

Flush ==
  /\ pc = "flush"
  /\ IF HasOutput /\ ~sinkOk
     THEN /\ lost' = TRUE
          /\ err' = IF err # None THEN err
                    ELSE IF Impl = "pinned" /\ cmd \notin {"csv-dbres", "rep-elem", "stats"} THEN None
                    ELSE E("write", "out", 0)
     ELSE UNCHANGED <<lost, err>>
  /\ pc' = "exit"
  /\ UNCHANGED days /\ Stay

Done == pc \in {"exit", "panic"} /\ UNCHANGED vars

Next == Open \/ ParseBook \/ Resolve \/ Day \/ LogEnds \/ Lint \/ Flush \/ Done
Spec == Init /\ [][Next]_vars /\ WF_vars(Open \/ ParseBook \/ Resolve \/ Day \/ LogEnds \/ Lint \/ Flush)

-----------------------------------------------------------------------------
Exit == IF err = None THEN 0 ELSE 1

ReadsBook == UsesDb(cmd)
ReadsLog == UsesLog(cmd) \/ IsLint(cmd)

\* C08: no input makes a command crash; every run ends
NoPanic == pc # "panic"
Termination == <>(pc \in {"exit", "panic"})

\* C09: a malformed entry in a file the command reads makes it fail, with the error of that entry
MalformedFailsEveryCommand ==
  (pc = "exit" /\ ~IsLint(cmd)) =>
     /\ (ReadsBook /\ book.p = "malformed") => Exit # 0
     /\ (ReadsLog /\ log.p = "malformed") => Exit # 0
     /\ (ReadsBook /\ book.p = "malformed" /\ log.p = "none") => err = E("malformed", "book", book.at)
     /\ (ReadsLog /\ log.p = "malformed" /\ book.p = "none") => err = E("malformed", "log", log.at)

\* C10: a file that cannot be read completely makes every command that reads it fail
UnreadableFailsEveryCommand ==
  pc = "exit" =>
     /\ (ReadsBook /\ book.p = "unreadable") => Exit # 0
     /\ (ReadsLog /\ log.p = "unreadable") => Exit # 0

\* C17: success is never reported after output was lost
LostOutputFails == (pc = "exit" /\ lost) => Exit # 0

\* the first problem in pipeline order decides; a clean run succeeds
CleanRunSucceeds ==
  (pc = "exit" /\ book.p = "none" /\ log.p = "none" /\ sinkOk) => Exit = 0

DumpInv ==
  (Dump /\ pc \in {"exit", "panic"}) =>
     PrintT(ToJson([cmd |-> cmd, book |-> book, log |-> log, sinkOk |-> sinkOk, pc |-> pc, err |-> err, days |-> days, lost |-> lost]))
=============================================================================
