\* random lines of length <= 32 over a 13-symbol alphabet, run with -simulate; table dumped for replay
CONSTANTS
  Alphabet <- AlphaSim
  MaxLen = 32
  CC = "#"
  Dump = TRUE
INIT Init
NEXT Next
INVARIANTS GrammarSound NotesNeverEntries MalformedExactly OrphanSilent NameShape PrintFormReadsBack NoteFixpoint DumpInv
CHECK_DEADLOCK FALSE
