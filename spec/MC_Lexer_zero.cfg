\* zeros of both signs: every line of length <= 6 over {blank - : a 0 .} (55987 lines); table dumped for replay
CONSTANTS
  Alphabet <- AlphaZero
  MaxLen = 6
  CC = "#"
  Dump = TRUE
INIT Init
NEXT Next
INVARIANTS GrammarSound NotesNeverEntries MalformedExactly OrphanSilent NameShape PrintFormReadsBack DumpInv
CHECK_DEADLOCK FALSE
