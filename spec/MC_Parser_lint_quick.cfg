\* lint: every file of <= 4 lines over the 11 kinds, callback never stops; terminal states dumped for the lint replay
CONSTANTS
  MaxLines = 4
  Kinds <- AllKinds
  Policies <- PolNever
  Faults = FALSE
  Impl = "repaired"
  Dump = TRUE
INIT Init
NEXT Next
INVARIANTS TypeOK LineNumberPhysical AllErrorsOnceInOrder DumpInv
