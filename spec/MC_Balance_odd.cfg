\* odd amounts (sub-cent parts with the unit 1/8); every log of <= 3 entries over the 14 names of depth <= 3 on 2 segments (2955 logs), 2 days, 3 display modes, all-foods and single-element trees
CONSTANTS
  Segs = {1, 2}
  MaxDepth = 3
  MaxLog = 3
  Amts <- AmtsOdd
  XName <- XNameA
  XBook <- XBookA
  Impl = "repaired"
  Dump = TRUE
INIT Init
NEXT Next
INVARIANTS EachPathOnce SiblingsSorted ParentIsOwnPlusChildren GrandTotalIsTopLevelSum ModesAgreeOnLeaves NoBranchDropped DumpInv
