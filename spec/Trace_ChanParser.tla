-------------------------- MODULE Trace_ChanParser --------------------------
(***************************************************************************)
(* Trace validation for ChanParser.tla.  Recorded from the real            *)
(* Parser.ParseStream / ParseFile running in a goroutine against a         *)
(* consumer loop of the harness (with scheduling jitter on both sides):    *)
(*   {"ev":"Init","items":[..],"final":..,"entry":..,"policy":..}          *)
(*   {"ev":"Recv","ch":"Nodes"|"Errors"|"Done","i":ordinal or 0}           *)
(*   {"ev":"ConsumerReturned"}                                             *)
(*   {"ev":"ProducerExited"} | {"ev":"ProducerBlocked"}   (drain policy)   *)
(* The producer's own steps are not observable: they are silent steps of   *)
(* the specification between the recorded receives.                        *)
(***************************************************************************)
EXTENDS ChanParser, IOUtils

VARIABLE l
Trace == ndJsonDeserialize(IOEnv.VERIF_TRACE)
tvars == <<vars, l>>

Load(rec) ==
  /\ items' = rec.items /\ final' = rec.final /\ entry' = rec.entry /\ policy' = rec.policy
  /\ k' = 1 /\ offer' = <<>> /\ cpc' = "select" /\ seen' = <<>>
  /\ ppc' = IF rec.entry = "fileOpenFails" THEN "openFailed" ELSE "loop"

TInit ==
  /\ l = 2 /\ Trace[1].ev = "Init" /\ TLCSet(1, 2)
  /\ items = Trace[1].items /\ final = Trace[1].final /\ entry = Trace[1].entry /\ policy = Trace[1].policy
  /\ k = 1 /\ offer = <<>> /\ cpc = "select" /\ seen = <<>>
  /\ ppc = IF Trace[1].entry = "fileOpenFails" THEN "openFailed" ELSE "loop"

IsEvent(e) == l <= Len(Trace) /\ Trace[l].ev = e /\ l' = l + 1

TSilent == Producer /\ l' = l
TRecv == IsEvent("Recv") /\ offer = <<Trace[l].ch, Trace[l].i>> /\ Recv
TConsumerReturned == IsEvent("ConsumerReturned") /\ cpc = "returned" /\ UNCHANGED vars
TProducerExited == IsEvent("ProducerExited") /\ ppc = "exited" /\ UNCHANGED vars
TProducerBlocked == IsEvent("ProducerBlocked") /\ ppc # "exited" /\ ~ENABLED Producer /\ UNCHANGED vars
TReset == IsEvent("Init") /\ Load(Trace[l])

TNext == TSilent \/ TRecv \/ TConsumerReturned \/ TProducerExited \/ TProducerBlocked \/ TReset
TSpec == TInit /\ [][TNext]_tvars

Mark == TLCSet(1, IF l > TLCGet(1) THEN l ELSE TLCGet(1))
Rejected == IF TLCGet(1) = Len(Trace) + 1 THEN TRUE
            ELSE PrintT(<<"REJECTED-AT-LINE", TLCGet(1)>>) /\ FALSE
=============================================================================
