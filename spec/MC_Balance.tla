----------------------------- MODULE MC_Balance -----------------------------
EXTENDS Balance
AmtsA == <<1, 2, -4, 8>>
AmtsOdd == <<1, 3, -5, 7>>     \* odd amounts: with a unit of 1/8 every contribution has a third decimal (rounding must come after summing)
\* single-element mode: foods with a resolved amount of the element (positive, negative, zero), and the
\* element itself (path <<2>>) can be logged directly
XNameA == <<2>>
XBookA == (<<1>> :> 3) @@ (<<1, 1>> :> -2) @@ (<<1, 2>> :> 0) @@ (<<2, 1>> :> 3) @@ (<<1, 2, 1>> :> 1)
XBookB == XBookA @@ (<<3>> :> 2) @@ (<<3, 1>> :> -1) @@ (<<2, 3>> :> 4)
\* trace validation (random logs of up to 14 entries): entry i has quantity +-2^(i-1), every third one negative
TraceAmts == [i \in 1..16 |-> IF i % 3 = 0 THEN -(2^(i - 1)) ELSE 2^(i - 1)]
=============================================================================
