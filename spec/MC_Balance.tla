----------------------------- MODULE MC_Balance -----------------------------
EXTENDS Balance
AmtsA == <<1, 2, -4, 8>>
\* single-element mode: foods with a resolved amount of the element (positive, negative, zero), and the
\* element itself (path <<2>>) can be logged directly
XNameA == <<2>>
XBookA == (<<1>> :> 3) @@ (<<1, 1>> :> -2) @@ (<<1, 2>> :> 0) @@ (<<2, 1>> :> 3) @@ (<<1, 2, 1>> :> 1)
=============================================================================
