\* C09 / C08: every file of <= 5 lines over the 11 kinds (malformed lines at every position) x 4 callback policies
CONSTANTS
  MaxLines = 5
  Kinds <- AllKinds
  Policies <- PolAll
  Faults = FALSE
  Impl = "repaired"
  Dump = TRUE
INIT Init
NEXT Next
INVARIANTS TypeOK RecordsExact LineNumberPhysical FirstErrorReturned AllErrorsOnceInOrder EventsArePrefix SuccessMeansAllLinesSeen DumpInv
