CONSTANTS
  Alphabet = {}
  MaxLen = 0
  NFields = 0
  MaxRecs = 0
INIT TInit
NEXT TNext
POSTCONDITION Rejected
CHECK_DEADLOCK FALSE
