\* all five settings vary together (flag x env x config entry), configuration file named by --config
CONSTANTS
  Vary = {"db", "log", "fmt", "depth", "today"}
  VaryConfigLocation = FALSE
  Impl = "repaired"
  Dump = TRUE
INIT Init
NEXT Next
INVARIANTS Precedence ExplicitConfigLoadedOrError NoDatabaseIsEmptyBook DumpInv
