---------------------------- MODULE Trace_Balance ----------------------------
(***************************************************************************)
(* Trace validation for Balance.tla beyond the exhaustive bound: random    *)
(* logs of 4..14 entries.  The harness runs the real `bal` on the first    *)
(* day alone and on the whole log (the state after each Process step) and  *)
(* then in all six display shapes:                                         *)
(*   {"ev":"Init","log":[[seg,..],..]}                                     *)
(*   {"ev":"Day","rows":[{val,lvl,label}]}       (after day 1, after day 2)*)
(*   {"ev":"Flush","default":..,"collapse":..,"collapseLast":..,           *)
(*                 "sdefault":..,"scollapse":..,"scollapseLast":..,"total"}*)
(* Default renderings must be exactly Rows(tree).  The collapsed ones must *)
(* be exactly Rows when no logged name is a path-prefix of another (the    *)
(* clause of C03); otherwise the statement does not fix how a chain whose  *)
(* nodes carry entries of their own is joined, and only conservation and   *)
(* "no branch dropped" are demanded.                                       *)
(***************************************************************************)
EXTENDS MC_Balance, IOUtils

VARIABLE l
Trace == ndJsonDeserialize(IOEnv.VERIF_TRACE)
tvars == <<vars, l>>

TInit == /\ l = 2 /\ Trace[1].ev = "Init"
         /\ log = Trace[1].log /\ day = 0 /\ tree = EmptyTree /\ stree = EmptyTree /\ total = 0 /\ flushed = FALSE

IsEvent(e) == l <= Len(Trace) /\ Trace[l].ev = e /\ l' = l + 1

TDay == /\ IsEvent("Day") /\ Process
        /\ Rows(tree', "default") = Trace[l].rows

RECURSIVE SumTop(_, _)
SumTop(rows, k) == IF k > Len(rows) THEN 0 ELSE (IF rows[k].lvl = 0 THEN rows[k].val ELSE 0) + SumTop(rows, k + 1)
TopOf(t) == LET tops == {p \in DOMAIN t : Len(p) = 1} IN
            IF tops = {} THEN 0 ELSE LET F[S \in SUBSET tops] == IF S = {} THEN 0 ELSE LET x == CHOOSE y \in S : TRUE IN t[x] + F[S \ {x}] IN F[tops]
WellNested(rows) == \A k \in 1..Len(rows) : rows[k].lvl <= (IF k = 1 THEN 0 ELSE rows[k - 1].lvl + 1)
\* outside the prefix-free clause: conservation at the top level, and (all foods) every logged path under some row
Lenient(rows, t, covered) ==
  /\ WellNested(rows)
  /\ SumTop(rows, 1) = TopOf(t)
  /\ LET sh == FullPaths(rows, 1, <<>>) IN
     \A p \in covered : \E k \in 1..Len(sh) : Len(sh[k].path) >= Len(p) /\ SubSeq(sh[k].path, 1, Len(p)) = p

TFlush ==
  /\ IsEvent("Flush") /\ Flush
  /\ LET r == Trace[l] IN
     /\ r.default = Rows(tree, "default")
     /\ r.sdefault = Rows(stree, "default")
     /\ r.total = total
     /\ IF PrefixFree
        THEN /\ r.collapse = Rows(tree, "collapse") /\ r.collapseLast = Rows(tree, "collapseLast")
             /\ r.scollapse = Rows(stree, "collapse") /\ r.scollapseLast = Rows(stree, "collapseLast")
        ELSE /\ Lenient(r.collapse, tree, Logged) /\ Lenient(r.collapseLast, tree, Logged)
             /\ Lenient(r.scollapse, stree, {}) /\ Lenient(r.scollapseLast, stree, {})

TReset == /\ IsEvent("Init") /\ flushed
          /\ log' = Trace[l].log /\ day' = 0 /\ tree' = EmptyTree /\ stree' = EmptyTree /\ total' = 0 /\ flushed' = FALSE

TNext == TDay \/ TFlush \/ TReset
TSpec == TInit /\ [][TNext]_tvars

Rejected == IF TLCGet("stats").diameter = Len(Trace) THEN TRUE
            ELSE PrintT(<<"REJECTED-AT-LINE", TLCGet("stats").diameter + 1>>) /\ FALSE
=============================================================================
