\* every scenario of <= 4 callback events x 3 entry kinds x 2 consumer policies, every interleaving
CONSTANTS
  MaxItems = 4
  Impl = "repaired"
  Dump = TRUE
SPECIFICATION Spec
INVARIANTS SeenIsPrefixOfRecords EachErrorOnce DoneIsLast ConsumerResult DumpInv
PROPERTIES StopConsumerTerminates DrainConsumerTerminates ProducerExitsAfterDrain
CHECK_DEADLOCK FALSE
