\* the full product: five settings x configuration file location
CONSTANTS
  Vary = {"db", "log", "fmt", "depth", "today"}
  VaryConfigLocation = TRUE
  Impl = "repaired"
  Dump = TRUE
INIT Init
NEXT Next
INVARIANTS Precedence ExplicitConfigLoadedOrError NoDatabaseIsEmptyBook DumpInv
