------------------------------ MODULE MC_Lexer ------------------------------
EXTENDS Lexer
Alpha11 == {" ", "\t", "-", ":", "q", "#", "a", "1", ".", "e", "+"}
Alpha9  == {" ", "\t", "-", ":", "q", "#", "a", "1", "."}
Alpha8  == {" ", "-", ":", "q", "#", "a", "1", "e"}
\* long random lines (simulation): no exponent letters, so every numeral is in range whatever its length
AlphaSim == {" ", "\t", "-", ":", "q", "#", "a", "b", "1", "0", ".", "/", ","}
=============================================================================
