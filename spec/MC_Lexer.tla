------------------------------ MODULE MC_Lexer ------------------------------
EXTENDS Lexer
Alpha11 == {" ", "\t", "-", ":", "q", "#", "a", "1", ".", "e", "+"}
Alpha9  == {" ", "\t", "-", ":", "q", "#", "a", "1", "."}
Alpha8  == {" ", "-", ":", "q", "#", "a", "1", "e"}
\* long random lines (simulation): no exponent letters, so every numeral is in range whatever its length
AlphaSim == {" ", "\t", "-", ":", "q", "#", "a", "b", "1", "0", ".", "/", ","}
AlphaZero == {" ", "-", ":", "a", "0", "."}
AlphaCC == {" ", "-", ":", "#", ";", "a", "1", "."}
\* with another comment character a name may begin with "#"; it still never begins or ends with a trim character
NameShapeCC == LET r == Lex(line, TRUE) IN r.k \in {"entry", "head"} => r.name # <<>> /\ r.name[1] \notin TrimText /\ r.name[Len(r.name)] \notin TrimText
=============================================================================
