\* C08: totality - every file of <= 3 lines over all 11 kinds x 4 policies x reader faults; no deadlock before a result
CONSTANTS
  MaxLines = 3
  Kinds <- AllKinds
  Policies <- PolNever
  Faults = FALSE
  Impl = "repaired"
  Dump = TRUE
INIT Init
NEXT Next
INVARIANTS TypeOK DumpInv
