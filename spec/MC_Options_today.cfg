\* sources of the setting "today" x location of the configuration file (default present/absent, --config, HR_CONFIG) x --no-database
CONSTANTS
  Vary = {"today"}
  VaryConfigLocation = TRUE
  Impl = "repaired"
  Dump = TRUE
INIT Init
NEXT Next
INVARIANTS Precedence ExplicitConfigLoadedOrError NoDatabaseIsEmptyBook DumpInv
