\* one log over all days around today / yesterday / last7 / last30 x every bound spec (absent, date, keyword) at global / sub-command / both
\* positions x 5 zones x summary
CONSTANTS
  Days <- DaysB
  MaxLog = 0
  Todays = {35}
  Zones <- FiveZones
  BoundKinds <- AllBounds
  Positions = {"global", "sub", "both"}
  Kinds = {"period", "summary"}
  LogSet <- LogB
  Dump = TRUE
INIT Init
NEXT Next
INVARIANTS SelectedExactly SummarySelectsThatDay FileOrderKept DumpInv
