------------------------------- MODULE Balance -------------------------------
(***************************************************************************)
(* The balance report: TreeNode.AddDeep / Keys (tree_aggregator.go) and    *)
(* the three renderers printNode (default and --collapse-last),            *)
(* printNodeCollapsed / getJump (--collapse) and the single-element        *)
(* variant (balance_reporter*.go).                                         *)
(*                                                                         *)
(* A food name is a path: a non-empty sequence of segment ids (the name    *)
(* split on "/"); ids are ordered like the byte order of the concrete      *)
(* segments.  The tree is a function from paths to running totals: AddDeep *)
(* adds the entry's value to EVERY prefix of its path.  One spec action    *)
(* per Process(day) (the entries of a day are added), one for Flush (the   *)
(* rows are rendered).                                                     *)
(*                                                                         *)
(* Impl = "pinned":   --collapse prints only the head of a sole-child      *)
(*                    chain that ends in a fork and skips everything       *)
(*                    below; -s adds 0 for the element logged directly and *)
(*                    leaves it out of the grand total.                    *)
(* Impl = "repaired": the chain is joined up to the fork and the branches  *)
(*                    are printed beneath it; the logged quantity counts.  *)
(***************************************************************************)
EXTENDS Integers, Sequences, FiniteSets, TLC, SequencesExt, Json

CONSTANTS Segs,      \* segment ids
          MaxDepth,  \* names have 1..MaxDepth segments
          MaxLog,    \* entries in the log
          Amts,      \* Amts[i] = quantity of the i-th entry (distinct powers of two, one negative)
          XName,     \* the path of the single element when it is logged directly
          XBook,     \* single-element mode: [food path -> resolved amount of the element]
          Impl, Dump

Paths == UNION {[1..n -> Segs] : n \in 1..MaxDepth}

VARIABLES log,     \* sequence of food paths (entry i has quantity Amts[i]); day 1 = first half, day 2 = rest
          day,     \* days processed (0..2)
          tree,    \* all-foods tree: path -> total
          stree,   \* single-element tree
          total,   \* single-element grand total
          flushed

vars == <<log, day, tree, stree, total, flushed>>

EmptyTree == [p \in {} |-> 0]
PathPrefixes(p) == {SubSeq(p, 1, n) : n \in 1..Len(p)}

\* TreeNode.AddDeep: every prefix node is created or incremented
AddDeep(t, p, v) ==
  [q \in DOMAIN t \cup PathPrefixes(p) |-> (IF q \in DOMAIN t THEN t[q] ELSE 0) + (IF q \in PathPrefixes(p) THEN v ELSE 0)]

\* single-element mode: which entries appear in the tree, with which value, and which count in the total
SingleShown(p) == p \in DOMAIN XBook \/ p = XName
SingleValue(p, q) == IF p \in DOMAIN XBook THEN XBook[p] * q ELSE IF Impl = "pinned" THEN 0 ELSE q
SingleCounts(p) == p \in DOMAIN XBook \/ (p = XName /\ Impl # "pinned")

DayOf(i) == IF 2 * i <= Len(log) + 1 THEN 1 ELSE 2      \* first half of the entries on day 1
EntriesOfDay(n) == {i \in 1..Len(log) : DayOf(i) = n}

Init ==
  /\ log \in UNION {[1..n -> Paths] : n \in 0..MaxLog}
  /\ day = 0 /\ tree = EmptyTree /\ stree = EmptyTree /\ total = 0 /\ flushed = FALSE

RECURSIVE AddAll(_, _, _), AddAllSingle(_, _, _)
AddAll(t, is, single) ==
  IF is = {} THEN t
  ELSE LET i == CHOOSE x \in is : \A y \in is : x <= y IN
       AddAll(IF single
              THEN (IF ~SingleShown(log[i]) THEN t ELSE AddDeep(t, log[i], SingleValue(log[i], Amts[i])))
              ELSE AddDeep(t, log[i], Amts[i]),
              is \ {i}, single)
AddAllSingle(tt, is, dummy) ==
  IF is = {} THEN tt
  ELSE LET i == CHOOSE x \in is : \A y \in is : x <= y IN
       AddAllSingle(IF SingleCounts(log[i]) THEN tt + SingleValue(log[i], Amts[i]) ELSE tt, is \ {i}, dummy)

Process ==
  /\ day < 2 /\ ~flushed
  /\ tree' = AddAll(tree, EntriesOfDay(day + 1), FALSE)
  /\ stree' = AddAll(stree, EntriesOfDay(day + 1), TRUE)
  /\ total' = AddAllSingle(total, EntriesOfDay(day + 1), 0)
  /\ day' = day + 1
  /\ UNCHANGED <<log, flushed>>

Flush == day = 2 /\ ~flushed /\ flushed' = TRUE /\ UNCHANGED <<log, day, tree, stree, total>>
Done == flushed /\ UNCHANGED vars
Next == Process \/ Flush \/ Done
Spec == Init /\ [][Next]_vars /\ WF_vars(Process \/ Flush)

-----------------------------------------------------------------------------
(* rendering                                                                *)

Children(t, p) == {q \in DOMAIN t : Len(q) = Len(p) + 1 /\ SubSeq(q, 1, Len(p)) = p}
\* Keys(): children sorted by their last segment
Keys(t, p) == SetToSortSeq(Children(t, p), LAMBDA a, b : a[Len(a)] < b[Len(b)])
Row(v, lvl, label) == [val |-> v, lvl |-> lvl, label |-> label]
RECURSIVE Cat(_)
Cat(ss) == IF ss = <<>> THEN <<>> ELSE Head(ss) \o Cat(Tail(ss))

\* printNode (balance_reporter.go:44-61)
RECURSIVE PrintNode(_, _, _, _)
PrintNode(t, p, lvl, collapseLast) ==
  LET ks == Keys(t, p) IN
  Cat([x \in 1..Len(ks) |->
     LET c  == ks[x]
         cc == Children(t, c)
     IN IF cc = {} THEN << Row(t[c], lvl, <<c[Len(c)]>>) >>
        ELSE IF collapseLast /\ Cardinality(cc) = 1 /\ Children(t, CHOOSE g \in cc : TRUE) = {}
             THEN LET g == CHOOSE g \in cc : TRUE IN << Row(t[c], lvl, <<c[Len(c)], g[Len(g)]>>) >>
        ELSE << Row(t[c], lvl, <<c[Len(c)]>>) >> \o PrintNode(t, c, lvl + 1, collapseLast)])

\* getJump: follow the chain of sole children
RECURSIVE ChainEnd(_, _)
ChainEnd(t, c) == LET cc == Children(t, c) IN IF Cardinality(cc) = 1 THEN ChainEnd(t, CHOOSE g \in cc : TRUE) ELSE c

\* printNodeCollapsed (balance_reporter_collapsed.go)
RECURSIVE PrintCollapsed(_, _, _, _)
PrintCollapsed(t, p, lvl, depthOfP) ==
  LET ks == Keys(t, p) IN
  Cat([x \in 1..Len(ks) |->
     LET c    == ks[x]
         last == ChainEnd(t, c)
         lab  == SubSeq(last, Len(c), Len(last))         \* the joined segments from c down to the end of the chain
     IN IF Impl = "pinned"
        THEN (IF Children(t, last) = {}
              THEN << Row(t[c], lvl, lab) >>                                   \* chain ends in a leaf: joined
              ELSE IF last # c THEN << Row(t[c], lvl, SubSeq(last, Len(c), Len(last) - 1)) >>   \* chain ends in a fork: the chain without the fork, subtree lost
              ELSE << Row(t[c], lvl, <<c[Len(c)]>>) >> \o PrintCollapsed(t, c, lvl + 1, 0))
        ELSE << Row(t[c], lvl, lab) >> \o PrintCollapsed(t, last, lvl + 1, 0)])

Rows(t, mode) ==
  CASE mode = "default"      -> PrintNode(t, <<>>, 0, FALSE)
    [] mode = "collapseLast" -> PrintNode(t, <<>>, 0, TRUE)
    [] mode = "collapse"     -> PrintCollapsed(t, <<>>, 0, 0)

-----------------------------------------------------------------------------
(* properties                                                               *)

\* full path of every row, reconstructed from levels and (joined) labels the way a reader of the report does
RECURSIVE FullPaths(_, _, _)
FullPaths(rows, i, stack) ==       \* stack[k] = full path of the last row at level k-1
  IF i > Len(rows) THEN <<>>
  ELSE LET r    == rows[i]
           base == IF r.lvl = 0 THEN <<>> ELSE stack[r.lvl]
           full == base \o r.label
           st2  == [k \in 1..(r.lvl + 1) |-> IF k = r.lvl + 1 THEN full ELSE stack[k]]
       IN <<[path |-> full, val |-> r.val]>> \o FullPaths(rows, i + 1, st2)
Shown(t, mode) == FullPaths(Rows(t, mode), 1, <<>>)
ShownSet(t, mode) == {Shown(t, mode)[i] : i \in 1..Len(Shown(t, mode))}

Own(p) == LET is == {i \in 1..Len(log) : log[i] = p /\ DayOf(i) <= day} IN
          IF is = {} THEN 0 ELSE LET F[S \in SUBSET is] == IF S = {} THEN 0 ELSE LET x == CHOOSE y \in S : TRUE IN Amts[x] + F[S \ {x}] IN F[is]

\* every category path (prefix of a logged name) appears exactly once in the default rendering
EachPathOnce ==
  LET sh == Shown(tree, "default") IN
  /\ {sh[i].path : i \in 1..Len(sh)} = UNION {PathPrefixes(log[i]) : i \in {j \in 1..Len(log) : DayOf(j) <= day}}
  /\ \A i, j \in 1..Len(sh) : sh[i].path = sh[j].path => i = j
  /\ \A i \in 1..Len(sh) : sh[i].val = tree[sh[i].path]
\* siblings are sorted by name: among rows with the same parent, labels increase
SiblingsSorted ==
  \A mode \in {"default", "collapse", "collapseLast"} :
    LET sh == Shown(tree, mode) rs == Rows(tree, mode) IN
    \A i, j \in 1..Len(sh) :
      (i < j /\ rs[i].lvl = rs[j].lvl /\ SubSeq(sh[i].path, 1, Len(sh[i].path) - Len(rs[i].label)) = SubSeq(sh[j].path, 1, Len(sh[j].path) - Len(rs[j].label))
         /\ \A k \in (i + 1)..(j - 1) : rs[k].lvl > rs[i].lvl)
      => rs[i].label[1] < rs[j].label[1]
\* conservation: every node equals its own entries plus its children
ParentIsOwnPlusChildren ==
  \A p \in DOMAIN tree :
     tree[p] = Own(p) + (LET cs == Children(tree, p) IN
                          IF cs = {} THEN 0 ELSE LET F[S \in SUBSET cs] == IF S = {} THEN 0 ELSE LET x == CHOOSE y \in S : TRUE IN tree[x] + F[S \ {x}] IN F[cs])
\* single element: the grand total is the sum of the top-level rows
GrandTotalIsTopLevelSum ==
  LET tops == {p \in DOMAIN stree : Len(p) = 1} IN
  total = (IF tops = {} THEN 0 ELSE LET F[S \in SUBSET tops] == IF S = {} THEN 0 ELSE LET x == CHOOSE y \in S : TRUE IN stree[x] + F[S \ {x}] IN F[tops])

Logged == {log[i] : i \in {j \in 1..Len(log) : DayOf(j) <= day}}
PrefixFree == \A p, q \in Logged : p # q => ~(Len(p) < Len(q) /\ SubSeq(q, 1, Len(p)) = p)
LeafRows(t, mode) == {r \in ShownSet(t, mode) : r.path \in Logged}
\* when no logged name is a path-prefix of another, every display mode shows the same leaf paths with
\* the same amounts and never drops a branch
ModesAgreeOnLeaves ==
  PrefixFree =>
    /\ LeafRows(tree, "collapse") = LeafRows(tree, "default")
    /\ LeafRows(tree, "collapseLast") = LeafRows(tree, "default")
    /\ {r.path : r \in LeafRows(tree, "default")} = Logged
\* whatever the names, no mode drops a branch: every logged path is (a prefix of) a shown path
NoBranchDropped ==
  \A mode \in {"default", "collapse", "collapseLast"} :
    \A p \in Logged : \E r \in ShownSet(tree, mode) : Len(r.path) >= Len(p) /\ SubSeq(r.path, 1, Len(p)) = p

DumpInv ==
  (Dump /\ flushed) =>
    PrintT(ToJson([log |-> log, amts |-> SubSeq(Amts, 1, Len(log)), days |-> [i \in 1..Len(log) |-> DayOf(i)],
                   xname |-> XName, xbook |-> LET S == SetToSeq(DOMAIN XBook) IN [k \in 1..Len(S) |-> [path |-> S[k], amt |-> XBook[S[k]]]],
                   default |-> Rows(tree, "default"), collapse |-> Rows(tree, "collapse"), collapseLast |-> Rows(tree, "collapseLast"),
                   sdefault |-> Rows(stree, "default"), scollapse |-> Rows(stree, "collapse"), scollapseLast |-> Rows(stree, "collapseLast"),
                   total |-> total]))
=============================================================================
