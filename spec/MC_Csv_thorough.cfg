\* Csv.tla: every record of 2 fields of <= 3 characters over {a , " blank LF CR e-acute} (160000 files)
CONSTANTS
  Alphabet = {97, 44, 34, 32, 10, 13, 233}
  MaxLen = 3
  NFields = 2
  MaxRecs = 1
SPECIFICATION Spec
INVARIANTS Lossless NeverRejected FoldAgrees
