\* every line of length <= 6 over the 9-symbol alphabet (597 k lines); theorems only
CONSTANTS
  Alphabet <- Alpha9
  MaxLen = 6
  CC = "#"
  Dump = FALSE
INIT Init
NEXT Next
INVARIANTS GrammarSound NotesNeverEntries MalformedExactly OrphanSilent NameShape PrintFormReadsBack NoteFixpoint
CHECK_DEADLOCK FALSE
