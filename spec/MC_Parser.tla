------------------------------ MODULE MC_Parser ------------------------------
EXTENDS Parser
WellFormedKinds == {"blank", "comment", "head", "note", "entry"}
AllKinds == WellFormedKinds \cup {"badsyntax", "badnumber"}
PolNever == {[p |-> "continue", k |-> 0]}
PolAll == {[p |-> "continue", k |-> 0], [p |-> "stopOnError", k |-> 0], [p |-> "stopAtNode", k |-> 1], [p |-> "stopAtNode", k |-> 2]}
PolCmd == {[p |-> "continue", k |-> 0], [p |-> "stopOnError", k |-> 0]}
=============================================================================
