\* sources of the setting "log" x location of the configuration file (default present/absent, --config, HR_CONFIG) x --no-database
CONSTANTS
  Vary = {"log"}
  VaryConfigLocation = TRUE
  Impl = "repaired"
  Dump = TRUE
INIT Init
NEXT Next
INVARIANTS Precedence ExplicitConfigLoadedOrError NoDatabaseIsEmptyBook DumpInv
