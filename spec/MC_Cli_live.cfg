CONSTANTS
  Cmds <- AllCmds
  MaxRecs = 2
  Impl = "repaired"
  Dump = FALSE
SPECIFICATION Spec
PROPERTY Termination
