CONSTANTS
  Cmds <- AllCmds
  MaxRecs = 3
  Impl = "repaired"
  Dump = FALSE
SPECIFICATION Spec
PROPERTY Termination
