---------------------------- MODULE MC_Reporters ----------------------------
EXTENDS Reporters
\* food 1: two elements of opposite sign; food 2: defined but empty; name 5 is not defined by the book,
\* can be logged directly AND is an element food 1 produces
BookA == (1 :> << <<4, 2>>, <<5, -1>> >>) @@ (2 :> <<>>)
FoodsA == {1, 2, 5}
QtysA == {-2, -1, 0, 1, 3}
\* second days: a repeat of a food of day 1, a permutation, an empty day, negatives only
Day2A == { <<>>, << <<1, 1>> >>, << <<5, 3>>, <<1, -2>> >>, << <<2, 1>>, <<5, -1>>, <<5, -1>> >>, << <<1, 3>>, <<1, -2>>, <<5, 0>> >> }
Day2B == { <<>>, << <<5, -1>>, <<1, 1>> >> }
=============================================================================
