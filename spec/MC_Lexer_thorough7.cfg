\* every line of length <= 8 over the 9-symbol alphabet (48 M lines); theorems only
CONSTANTS
  Alphabet <- Alpha9
  MaxLen = 8
  CC = "#"
  Dump = FALSE
INIT Init
NEXT Next
INVARIANTS GrammarSound NotesNeverEntries MalformedExactly OrphanSilent NameShape PrintFormReadsBack NoteFixpoint
CHECK_DEADLOCK FALSE
