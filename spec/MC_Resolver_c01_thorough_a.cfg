\* C01 thorough (a): 3 recipes x <= 2 ingredients over 5 names, every order, N = 10
CONSTANTS
  Recipes = {1, 2, 3}
  Leaves = {4, 5}
  MaxIngr = 2
  Depths = {10}
  Impl = "repaired"
  CoefTable <- CoefPrimes
  Dump = TRUE
INIT Init
NEXT Next
INVARIANTS ResolvedIsSumOfProducts NoRecipeLeft SortedNoDuplicates Idempotent KeysStable DepthErrorIffHeight DumpInv
PROPERTY ResolvedStaysResolved
CHECK_DEADLOCK FALSE
