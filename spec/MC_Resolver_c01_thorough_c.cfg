\* C01 thorough (c): 4 recipes x <= 2 ingredients over 5 names (1 basic element), every order
CONSTANTS
  Recipes = {1, 2, 3, 4}
  Leaves = {5}
  MaxIngr = 2
  Depths = {10}
  Impl = "repaired"
  CoefTable <- CoefMixed
  Dump = TRUE
INIT Init
NEXT Next
INVARIANTS ResolvedIsSumOfProducts NoRecipeLeft SortedNoDuplicates Idempotent KeysStable DepthErrorIffHeight DumpInv
CHECK_DEADLOCK FALSE
