\* the site kinds of the code as first found: TLC must produce the counterexample
CONSTANTS
  Keys = {1, 2, 3, 4}
  Vals = {1, 2}
  Sites = {"unsorted", "stableByValue"}
INIT Init
NEXT Next
INVARIANT Deterministic
