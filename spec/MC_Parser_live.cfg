\* C08: termination of the parser machine under weak fairness (no state constraint)
CONSTANTS
  MaxLines = 3
  Kinds <- AllKinds
  Policies <- PolAll
  Faults = TRUE
  Impl = "repaired"
  Dump = FALSE
SPECIFICATION Spec
PROPERTY Terminates
