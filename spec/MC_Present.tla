----------------------------- MODULE MC_Present -----------------------------
EXTENDS Present

F1 == [name |-> 1, qty |-> 2, ingr |-> << <<2, 4>>, <<3, -6>> >>]
F2 == [name |-> 3, qty |-> -1, ingr |-> << <<3, -1>> >>]
F3 == [name |-> 2, qty |-> 0, ingr |-> <<>>]          \* a food whose recipe is empty
T1 == [name |-> 2, pos |-> 4, neg |-> 0, sum |-> 4]
T2 == [name |-> 3, pos |-> 0, neg |-> -7, sum |-> -7]
T3 == [name |-> 1, pos |-> 3, neg |-> -3, sum |-> 0]
SeqsUpTo(S, n) == UNION {[1..k -> S] : k \in 0..n}
DaysOn(d, nf, nt) == {[date |-> d, foods |-> f, totals |-> t] : f \in SeqsUpTo({F1, F2, F3}, nf), t \in SeqsUpTo({T1, T2, T3}, nt)}
\* one day, up to 2 foods and 2 totals: 170 histories
DaySeqsQuick == {<<>>} \cup {<<x>> : x \in DaysOn(1, 2, 2)}
\* two days (the second may repeat the first's date): 1 + 52 + 52 * 104 histories
DaySeqsThorough == {<<>>} \cup {<<x>> : x \in DaysOn(1, 2, 1)} \cup {<<x, y>> : x \in DaysOn(1, 2, 1), y \in DaysOn(1, 2, 1) \cup DaysOn(2, 2, 1)}
\* name 1 fits every column, name 2 fits the food column (27) but not the row column (20), name 3 fits none
LensMC == (1 :> 5) @@ (2 :> 24) @@ (3 :> 30)
AllTemplates == {"default", "left", "old"}
=============================================================================
