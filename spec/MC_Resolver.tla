---------------------------- MODULE MC_Resolver ----------------------------
(* constant definitions for the exhaustive configurations of Resolver.tla *)
EXTENDS Resolver
CoefPrimes == <<2, 3, 5, 7, 11, 13, 17, 19, 23>>      \* distinct primes: a polynomial identity test
CoefMixed  == <<1, -1, 0, 2, 1, 5, 3, 0, -2>>         \* one, negative, zero and repeated coefficients
CoefOnes   == <<1>>

(* chain family for C11: r1 -> r2 -> ... -> rL -> t, where t is the basic element (L references *)
(* from r1) or one of the recipes of the chain (a cycle hanging off the end of a chain)       *)
ChainLeaf == CHOOSE x \in Leaves : TRUE
ChainBook(L, t) == [r \in 1..L |-> << <<(IF r < L THEN r + 1 ELSE t), Coef(r, 1)>> >>]
InitChain == /\ decl = <<>>
             /\ book0 \in {ChainBook(L, t) : L \in 0..Cardinality(Recipes), t \in {ChainLeaf} \cup Recipes}
             /\ \A r \in DOMAIN book0 : \A i \in 1..Len(book0[r]) : book0[r][i][1] \in DOMAIN book0 \cup {ChainLeaf}
             /\ maxDepth \in Depths
             /\ db = book0 /\ heights = NoHeights /\ pending = DOMAIN book0 /\ order = <<>> /\ status = "running"

(* book files with repeated headings: every sequence of <= MaxRecs records over the recipe names, each *)
(* with <= MaxIngr ingredients; the book is what LoadDatabaseFromStream leaves in the map (last wins)   *)
MaxRecs == 3
RecordSet == {[name |-> r, ingr |-> [i \in 1..Len(l) |-> <<l[i], Coef(r, i)>>]] : r \in Recipes, l \in IngrLists(MaxIngr)}
RecordSeqs == UNION {[1..k -> RecordSet] : k \in 0..MaxRecs}
InitRecords == /\ decl \in RecordSeqs
               /\ book0 = LastWins(decl, 1, EmptyBook)
               /\ maxDepth \in Depths
               /\ db = book0 /\ heights = NoHeights /\ pending = DOMAIN book0 /\ order = <<>> /\ status = "running"
=============================================================================
