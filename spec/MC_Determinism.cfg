\* every set of <= 4 keys x values with ties x every iteration order x the site kinds of the repaired code
CONSTANTS
  Keys = {1, 2, 3, 4}
  Vals = {1, 2}
  Sites = {"sortKey", "keyThenStable"}
INIT Init
NEXT Next
INVARIANT Deterministic
