\* C11 quick (chain): chains of 0..6 recipes ending in the basic element or in a cycle, limits 1..7, every order
CONSTANTS
  Recipes = {1, 2, 3, 4, 5, 6}
  Leaves = {7}
  MaxIngr = 1
  Depths = {1, 2, 3, 4, 5, 6, 7}
  Impl = "repaired"
  CoefTable <- CoefPrimes
  Dump = TRUE
INIT InitChain
NEXT Next
INVARIANTS DepthErrorIffHeight ResolvedIsSumOfProducts KeysStable DumpInv
CHECK_DEADLOCK FALSE
