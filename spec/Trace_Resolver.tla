--------------------------- MODULE Trace_Resolver ---------------------------
(***************************************************************************)
(* Trace validation for Resolver.tla: executions recorded from the real    *)
(* resolver (function API, deprecated API, and the CLI's                    *)
(* `csv database-resolved`) are checked to be behaviours of the            *)
(* specification.  Many traces are concatenated in one file:               *)
(*   {"ev":"Init","book":[[name,[[ingredient,coef],..]],..],"n":N}          *)
(*   {"ev":"Visit","n":name}            one per top-level visit (hook)      *)
(*   {"ev":"Exit","status":"ok"|"depthError","db":[[name,[[el,amt],..]],..]}*)
(* Visit is deterministic given the logged name, so the search is linear.  *)
(***************************************************************************)
EXTENDS Resolver, IOUtils

VARIABLE l        \* index of the next trace line to consume

Trace == ndJsonDeserialize(IOEnv.VERIF_TRACE)

tvars == <<vars, l>>

BookOf(pairs) ==
  [r \in {pairs[i][1] : i \in 1..Len(pairs)} |->
      LET i == CHOOSE j \in 1..Len(pairs) : pairs[j][1] = r IN pairs[i][2]]

Load(rec) ==
  /\ decl' = <<>>
  /\ book0' = BookOf(rec.book)
  /\ db' = BookOf(rec.book)
  /\ maxDepth' = rec.n
  /\ heights' = NoHeights
  /\ pending' = {rec.book[i][1] : i \in 1..Len(rec.book)}
  /\ order' = <<>>
  /\ status' = "running"

TInit ==
  /\ l = 2
  /\ Trace[1].ev = "Init"
  /\ decl = <<>>
  /\ book0 = BookOf(Trace[1].book)
  /\ db = book0
  /\ maxDepth = Trace[1].n
  /\ heights = NoHeights
  /\ pending = DOMAIN book0
  /\ order = <<>>
  /\ status = "running"

IsEvent(e) == l <= Len(Trace) /\ Trace[l].ev = e /\ l' = l + 1

TVisit == IsEvent("Visit") /\ Visit(Trace[l].n)

\* the run ended: either every recipe was visited (Done) or a visit failed
TExitOk ==
  /\ IsEvent("Exit")
  /\ Trace[l].status = "ok"
  /\ Done
  /\ db = BookOf(Trace[l].db)        \* the resolved book the code returned is the spec's

TExitErr ==
  /\ IsEvent("Exit")
  /\ Trace[l].status = "depthError"
  /\ status = "depthError"
  /\ UNCHANGED vars

TReset == IsEvent("Init") /\ Terminal /\ Load(Trace[l])

TNext == TVisit \/ TExitOk \/ TExitErr \/ TReset

TSpec == TInit /\ [][TNext]_tvars

\* accepted iff every line was consumed (TInit consumes line 1, each step one more line)
Accepted == TLCGet("stats").diameter = Len(Trace)

\* printed on rejection: the first line that no action of the specification explains
Rejected == IF TLCGet("stats").diameter = Len(Trace) THEN TRUE
            ELSE PrintT(<<"REJECTED-AT-LINE", TLCGet("stats").diameter + 1>>) /\ FALSE
=============================================================================
