------------------------------ MODULE Reporters ------------------------------
(***************************************************************************)
(* The log walk and the reporters: WalkNodesInStream delivers the selected *)
(* days one by one; each reporter's Process(day) updates its own state and *)
(* (per-day reporters) appends rows to its output; Flush prints the period *)
(* reports.  One spec action per Process(day) - all reporters advance in   *)
(* lock-step over the same log, so that the relations between reports      *)
(* (C07) and their composition over the history (C12) are properties of    *)
(* one behaviour - and one action for Flush.                               *)
(*                                                                         *)
(* Each reporter is written operationally, the way its code is (the code   *)
(* re-implements "quantity x resolved element, pass unknown foods through" *)
(* seven times; so does this module).  Declarative counterparts are        *)
(* defined separately and used only in properties.                         *)
(*                                                                         *)
(* Data: names are integers ordered like the byte order of the concrete    *)
(* strings; quantities and amounts are integers in units chosen by the     *)
(* harness; a book maps a defined food to its RESOLVED element list        *)
(* (sorted by element, as Resolver.tla leaves it); a day is                *)
(* [date, es: sequence of <<food, quantity>> as written in the file].      *)
(***************************************************************************)
EXTENDS Integers, Sequences, FiniteSets, TLC, SequencesExt, Json

CONSTANTS BookInit,   \* the resolved book of the exhaustive configurations: [food -> Seq(<<element, amount>>)]
          Foods,      \* names that can be logged
          Qtys,       \* quantities that can be logged
          MaxEntries, \* entries per day
          Day2Set,    \* the second day, if any, is drawn from this (non-empty) set of entry lists
          Element,    \* the element of the single-element reports
          Dump

VARIABLES Book,     \* the resolved book (never changes within a run; a variable so that traces can bring their own)
          log,      \* the selected days, in file order (never changes)
          d,        \* days processed so far
          reg,      \* register: one chunk per processed day
          csvlog,   \* csv log rows
          single,   \* reg -s Element rows
          food,     \* reg -f rows (all foods: the harness uses a regexp that matches everything)
          totAcc,   \* report totals accumulator
          qtyAcc,   \* report quantity accumulator
          byFood,   \* reg -s Element -g accumulator
          unres,    \* report unresolved set
          balTotal, \* bal -s Element grand total
          flushed   \* Flush has run

vars == <<Book, log, d, reg, csvlog, single, food, totAcc, qtyAcc, byFood, unres, balTotal, flushed>>

-----------------------------------------------------------------------------
(* helpers                                                                  *)

RECURSIVE SumSeq(_)
SumSeq(s) == IF s = <<>> THEN 0 ELSE Head(s) + SumSeq(Tail(s))

RECURSIVE IndexOf(_, _, _)
IndexOf(el, name, i) == IF i > Len(el) THEN 0 ELSE IF el[i][1] = name THEN i ELSE IndexOf(el, name, i + 1)

\* NewLogNodeFromElements: duplicates of a food within a day are summed, first appearance keeps its place
RECURSIVE MergeFrom(_, _, _)
MergeFrom(es, i, acc) ==
  IF i > Len(es) THEN acc
  ELSE LET k == IndexOf(acc, es[i][1], 1) IN
       MergeFrom(es, i + 1, IF k > 0 THEN [acc EXCEPT ![k] = <<@[1], @[2] + es[i][2]>>] ELSE Append(acc, es[i]))
Merge(es) == MergeFrom(es, 1, <<>>)

SortedSeq(S) == SetToSortSeq(S, LAMBDA a, b : a < b)

\* a stable sort by quantity (sort.SliceStable): insertion keeps equal rows in their original order
QLess(a, b, desc) == IF desc THEN a.qty > b.qty ELSE a.qty < b.qty
RECURSIVE InsertStable(_, _, _, _), StableSortQty(_, _)
InsertStable(sorted, x, desc, i) ==
  IF i > Len(sorted) THEN Append(sorted, x)
  ELSE IF QLess(x, sorted[i], desc) THEN SubSeq(sorted, 1, i - 1) \o <<x>> \o SubSeq(sorted, i, Len(sorted))
  ELSE InsertStable(sorted, x, desc, i + 1)
StableSortQty(s, desc) ==
  IF s = <<>> THEN <<>> ELSE InsertStable(StableSortQty(SubSeq(s, 1, Len(s) - 1), desc), s[Len(s)], desc, 1)

\* Accumulator.Add: negative values to the negative register, everything else (zero too) to the positive one
AccAdd(acc, name, v) ==
  IF name \in DOMAIN acc
  THEN [acc EXCEPT ![name] = IF v < 0 THEN <<@[1] + v, @[2]>> ELSE <<@[1], @[2] + v>>]
  ELSE acc @@ (name :> (IF v < 0 THEN <<v, 0>> ELSE <<0, v>>))
EmptyAcc == [x \in {} |-> <<0, 0>>]
RECURSIVE AccAll(_, _, _)
AccAll(acc, cs, i) == IF i > Len(cs) THEN acc ELSE AccAll(AccAdd(acc, cs[i][1], cs[i][2]), cs, i + 1)

\* rows [name, pos, neg, sum] sorted by name (newTotalFromAccumulator, TotalReporter.Flush, reg_reporter.go)
TotalRows(acc) == LET S == SortedSeq(DOMAIN acc) IN
                  [k \in 1..Len(S) |-> [name |-> S[k], pos |-> acc[S[k]][2], neg |-> acc[S[k]][1], sum |-> acc[S[k]][1] + acc[S[k]][2]]]

\* what one merged entry <<food, qty>> contributes: qty x each resolved element, or the food itself
Ingredients(e) == IF e[1] \in DOMAIN Book
                  THEN [j \in 1..Len(Book[e[1]]) |-> <<Book[e[1]][j][1], Book[e[1]][j][2] * e[2]>>]
                  ELSE << <<e[1], e[2]>> >>
RECURSIVE Flatten(_)
Flatten(ss) == IF ss = <<>> THEN <<>> ELSE Head(ss) \o Flatten(Tail(ss))
Contribs(es) == Flatten([i \in 1..Len(es) |-> Ingredients(es[i])])     \* es already merged

-----------------------------------------------------------------------------
(* the reporters' Process(day), one definition per code path                *)

\* reporter.GetReportItem (default / left-aligned template, summary) and reg_reporter.go (old): same rows
RegChunk(day) ==
  LET m == Merge(day.es) IN
  [date   |-> day.date,
   foods  |-> [i \in 1..Len(m) |-> [name |-> m[i][1], qty |-> m[i][2], ingr |-> Ingredients(m[i])]],
   totals |-> TotalRows(AccAll(EmptyAcc, Contribs(m), 1))]

\* csv_reporter.go: one row per merged entry
CsvLogRows(day) == LET m == Merge(day.es) IN [i \in 1..Len(m) |-> [date |-> day.date, name |-> m[i][1], qty |-> m[i][2]]]

\* single_reporter.go: one row per day in which the element occurs (through the book or logged directly)
SingleRows(day) ==
  LET m  == Merge(day.es)
      cs == SelectSeq(Contribs(m), LAMBDA c : c[1] = Element)
      a  == AccAll(EmptyAcc, cs, 1)
  IN IF cs = <<>> THEN <<>>
     ELSE << [date |-> day.date, pos |-> a[Element][2], neg |-> a[Element][1], sum |-> a[Element][1] + a[Element][2]] >>

\* single_food_reporter.go with a pattern that matches every name
FoodRows(day) == CsvLogRows(day)

\* element_by_food_reporter.go: only foods the book defines
ByFoodAdd(acc, day) ==
  LET m  == Merge(day.es)
      cs == Flatten([i \in 1..Len(m) |->
               IF m[i][1] \in DOMAIN Book
               THEN LET hit == SelectSeq(Book[m[i][1]], LAMBDA p : p[1] = Element) IN [j \in 1..Len(hit) |-> <<m[i][1], hit[j][2] * m[i][2]>>]
               ELSE <<>>])
  IN AccAll(acc, cs, 1)

\* quantity_reporter.go
RECURSIVE QtyAll(_, _, _)
QtyAll(acc, m, i) == IF i > Len(m) THEN acc
                     ELSE QtyAll(IF m[i][1] \in DOMAIN acc THEN [acc EXCEPT ![m[i][1]] = @ + m[i][2]] ELSE acc @@ (m[i][1] :> m[i][2]), m, i + 1)

\* balance_reporter_single.go: grand total (the tree itself is Balance.tla's)
BalSingleAdd(t, day) == t + SumSeq(LET cs == SelectSeq(Contribs(Merge(day.es)), LAMBDA c : c[1] = Element) IN [i \in 1..Len(cs) |-> cs[i][2]])

-----------------------------------------------------------------------------
EntryLists == UNION {[1..n -> Foods \X Qtys] : n \in 0..MaxEntries}
Init ==
  /\ Book = BookInit
  /\ \E e1 \in EntryLists, two \in BOOLEAN, e2 \in Day2Set :
        log = IF two THEN << [date |-> 1, es |-> e1], [date |-> 2, es |-> e2] >>
              ELSE << [date |-> 1, es |-> e1] >>
  /\ d = 0 /\ reg = <<>> /\ csvlog = <<>> /\ single = <<>> /\ food = <<>>
  /\ totAcc = EmptyAcc /\ qtyAcc = [x \in {} |-> 0] /\ byFood = EmptyAcc /\ unres = {} /\ balTotal = 0
  /\ flushed = FALSE

\* r.Process(day) of every reporter
Process ==
  /\ d < Len(log) /\ ~flushed
  /\ LET day == log[d + 1]
         m   == Merge(day.es)
     IN /\ reg' = Append(reg, RegChunk(day))
        /\ csvlog' = csvlog \o CsvLogRows(day)
        /\ single' = single \o SingleRows(day)
        /\ food' = food \o FoodRows(day)
        /\ totAcc' = AccAll(totAcc, Contribs(m), 1)
        /\ qtyAcc' = QtyAll(qtyAcc, m, 1)
        /\ byFood' = ByFoodAdd(byFood, day)
        /\ unres' = unres \cup {m[i][1] : i \in {j \in 1..Len(m) : m[j][1] \notin DOMAIN Book}}
        /\ balTotal' = BalSingleAdd(balTotal, day)
  /\ d' = d + 1
  /\ UNCHANGED <<Book, log, flushed>>

Flush ==
  /\ d = Len(log) /\ ~flushed
  /\ flushed' = TRUE
  /\ UNCHANGED <<Book, log, d, reg, csvlog, single, food, totAcc, qtyAcc, byFood, unres, balTotal>>

Done == flushed /\ UNCHANGED vars
Next == Process \/ Flush \/ Done
Spec == Init /\ [][Next]_vars /\ WF_vars(Process \/ Flush)

\* period reports as printed by Flush
TotalsReport == TotalRows(totAcc)
\* quantity: name order first, then a stable sort by value (ascending / descending)
QtyRows(desc) ==
  LET S  == SortedSeq(DOMAIN qtyAcc)
      rs == [k \in 1..Len(S) |-> [name |-> S[k], qty |-> qtyAcc[S[k]]]]
  IN StableSortQty(rs, desc)
ByFoodRows == LET S == SortedSeq(DOMAIN byFood) IN [k \in 1..Len(S) |-> [name |-> S[k], sum |-> byFood[S[k]][1] + byFood[S[k]][2]]]
UnresRows == SortedSeq(unres)

-----------------------------------------------------------------------------
(* declarative counterparts (C02)                                           *)

\* all contributions of a day as a set of <<entry index, element index, element, value>>
ContribSet(day) ==
  LET m == Merge(day.es) IN
  UNION {IF m[i][1] \in DOMAIN Book
         THEN {<<i, j, Book[m[i][1]][j][1], Book[m[i][1]][j][2] * m[i][2]>> : j \in 1..Len(Book[m[i][1]])}
         ELSE {<<i, 0, m[i][1], m[i][2]>>} : i \in 1..Len(m)}
RECURSIVE SumVals(_)
SumVals(S) == IF S = {} THEN 0 ELSE LET x == CHOOSE y \in S : TRUE IN x[4] + SumVals(S \ {x})
DeclTotals(day) ==
  LET C  == ContribSet(day)
      Es == SortedSeq({c[3] : c \in C})
  IN [k \in 1..Len(Es) |-> [name |-> Es[k],
                            pos  |-> SumVals({c \in C : c[3] = Es[k] /\ c[4] >= 0}),
                            neg  |-> SumVals({c \in C : c[3] = Es[k] /\ c[4] < 0}),
                            sum  |-> SumVals({c \in C : c[3] = Es[k]})]]
\* distinct foods of a day in first-appearance order with the sum of their quantities
FirstIdx(es, f) == CHOOSE i \in 1..Len(es) : es[i][1] = f /\ \A j \in 1..(i - 1) : es[j][1] # f
DeclFoods(day) ==
  LET Fs  == {day.es[i][1] : i \in 1..Len(day.es)}
      ord == SetToSortSeq(Fs, LAMBDA a, b : FirstIdx(day.es, a) < FirstIdx(day.es, b))
  IN [k \in 1..Len(ord) |-> <<ord[k], SumSeq(LET h == SelectSeq(day.es, LAMBDA e : e[1] = ord[k]) IN [x \in 1..Len(h) |-> h[x][2]])>>]

\* C02: the register shows, per processed day in file order, each distinct food once in first-appearance
\* order with its summed quantity, its ingredients, and the exact signed totals
RegisterExact ==
  /\ Len(reg) = d
  /\ \A x \in 1..d :
       /\ reg[x].date = log[x].date
       /\ [i \in 1..Len(reg[x].foods) |-> <<reg[x].foods[i].name, reg[x].foods[i].qty>>] = DeclFoods(log[x])
       /\ \A i \in 1..Len(reg[x].foods) : reg[x].foods[i].ingr = Ingredients(<<reg[x].foods[i].name, reg[x].foods[i].qty>>)
       /\ reg[x].totals = DeclTotals(log[x])

-----------------------------------------------------------------------------
(* C07: figures that several reports derive from the same data agree        *)

Lookup(rows, name) == LET h == SelectSeq(rows, LAMBDA r : r.name = name) IN IF h = <<>> THEN [pos |-> 0, neg |-> 0, sum |-> 0] ELSE h[1]
AllElements == UNION {{reg[x].totals[k].name : k \in 1..Len(reg[x].totals)} : x \in 1..Len(reg)}

\* period totals = sum of the register's daily totals (pos, neg and sum separately), same set of elements
Agree_TotalsVsRegister ==
  flushed =>
    /\ {TotalsReport[k].name : k \in 1..Len(TotalsReport)} = AllElements
    /\ \A k \in 1..Len(TotalsReport) :
         LET e == TotalsReport[k].name IN
         /\ TotalsReport[k].pos = SumSeq([x \in 1..Len(reg) |-> Lookup(reg[x].totals, e).pos])
         /\ TotalsReport[k].neg = SumSeq([x \in 1..Len(reg) |-> Lookup(reg[x].totals, e).neg])
         /\ TotalsReport[k].sum = TotalsReport[k].pos + TotalsReport[k].neg
\* period total of the element = sum of the single-element register rows = single-element balance grand total
Agree_SingleVsTotals ==
  flushed =>
    LET t == Lookup(TotalsReport, Element) IN
    /\ SumSeq([x \in 1..Len(single) |-> single[x].pos]) = t.pos
    /\ SumSeq([x \in 1..Len(single) |-> single[x].neg]) = t.neg
    /\ balTotal = t.sum
\* quantities per food = sums of the CSV log rows of that food
Agree_QuantityVsCsvLog ==
  flushed =>
    /\ DOMAIN qtyAcc = {csvlog[x].name : x \in 1..Len(csvlog)}
    /\ \A f \in DOMAIN qtyAcc :
         qtyAcc[f] = SumSeq(LET h == SelectSeq(csvlog, LAMBDA r : r.name = f) IN [x \in 1..Len(h) |-> h[x].qty])
\* the unresolved list is exactly the set of logged foods the book does not define
LoggedFoods == UNION {{log[x].es[i][1] : i \in 1..Len(log[x].es)} : x \in 1..Len(log)}
Agree_Unresolved == flushed => unres = {f \in LoggedFoods : f \notin DOMAIN Book}
\* the single-element-by-food rows add up to the book-defined part of the element's period total
Agree_ByFood ==
  flushed =>
    SumSeq([k \in 1..Len(ByFoodRows) |-> ByFoodRows[k].sum])
      = SumSeq([x \in 1..Len(log) |->
           SumSeq(LET m == Merge(log[x].es)
                      h == SelectSeq(m, LAMBDA e : e[1] \in DOMAIN Book)
                  IN [i \in 1..Len(h) |-> SumSeq(LET p == SelectSeq(Book[h[i][1]], LAMBDA q : q[1] = Element) IN [j \in 1..Len(p) |-> p[j][2] * h[i][2]])])])

-----------------------------------------------------------------------------
(* C12: reports compose over the history                                    *)

\* per-day reporters: a Process step appends a chunk that is a function of that day alone and never
\* rewrites what was printed for earlier days
DayOutputLocal ==
  [][d' = d + 1 =>
       /\ reg' = Append(reg, RegChunk(log[d + 1]))
       /\ csvlog' = csvlog \o CsvLogRows(log[d + 1])
       /\ single' = single \o SingleRows(log[d + 1])
       /\ food' = food \o FoodRows(log[d + 1])]_vars
\* period reporters: the accumulators after the whole log are the element-wise sums of the
\* accumulators of its parts (here: of the single days)
AccOfDay(day) == AccAll(EmptyAcc, Contribs(Merge(day.es)), 1)
PeriodAdditive ==
  flushed =>
    \A e \in DOMAIN totAcc :
       /\ totAcc[e][1] = SumSeq([x \in 1..Len(log) |-> IF e \in DOMAIN AccOfDay(log[x]) THEN AccOfDay(log[x])[e][1] ELSE 0])
       /\ totAcc[e][2] = SumSeq([x \in 1..Len(log) |-> IF e \in DOMAIN AccOfDay(log[x]) THEN AccOfDay(log[x])[e][2] ELSE 0])

-----------------------------------------------------------------------------
(* C13: CSV rows                                                            *)
CsvRows_Log ==
  csvlog = Flatten([x \in 1..d |-> LET f == DeclFoods(log[x]) IN [i \in 1..Len(f) |-> [date |-> log[x].date, name |-> f[i][1], qty |-> f[i][2]]]])

-----------------------------------------------------------------------------
DumpInv ==
  (Dump /\ flushed) =>
    PrintT(ToJson([book |-> LET S == SortedSeq(DOMAIN Book) IN [k \in 1..Len(S) |-> [name |-> S[k], els |-> Book[S[k]]]],
                   element |-> Element, log |-> log, reg |-> reg, csvlog |-> csvlog, single |-> single,
                   totals |-> TotalsReport, qty |-> QtyRows(FALSE), qtydesc |-> QtyRows(TRUE),
                   byfood |-> ByFoodRows, unres |-> UnresRows, baltotal |-> balTotal]))
=============================================================================
