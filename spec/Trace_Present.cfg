CONSTANTS
  DaySeqs = {}
  Lens = 0
  Templates = {}
  Dump = FALSE
INIT TInit
NEXT TNext
INVARIANTS OutIsConcatenation SameRecords Interleaved StripIsPlain ColourBySign CutOnlyWhenTooLong
POSTCONDITION Rejected
CHECK_DEADLOCK FALSE
