------------------------------- MODULE Options -------------------------------
(***************************************************************************)
(* options.Load (options.go:62-139) as it is driven by urfave/cli:         *)
(* where each of the five settings - recipe-book path, log path, date      *)
(* format, resolve depth, current date - takes its value from, and which   *)
(* configuration file is read.                                             *)
(*                                                                         *)
(* A source either provides a value or not; the value a source provides    *)
(* for setting s is the token <<s, source>>, so "which source won" is the  *)
(* observable.  urfave/cli: a flag given on the command line beats its     *)
(* EnvVars; IsSet is true for either.  One action per step of Load:        *)
(* LoadConfigFile, then PopulateGlobals / PopulateResolver.                *)
(*                                                                         *)
(* Impl = "pinned": fileExists is inverted (an existing file is absent and *)
(* a missing one "exists", then fails to open) and --no-database only      *)
(* suppresses taking -d.                                                   *)
(***************************************************************************)
EXTENDS Integers, Sequences, FiniteSets, TLC, Json

CONSTANTS Vary,   \* the settings whose sources vary in this configuration (others: no source gives a value)
          VaryConfigLocation,  \* TRUE: explore --config / HR_CONFIG / default location; FALSE: --config names an existing file
          Impl, Dump

Settings == {"db", "log", "fmt", "depth", "today"}
HasEnv(s) == s # "today"         \* --today has no environment variable

VARIABLES flag, env, cfg,     \* [Settings -> BOOLEAN]: the source provides a value
          defaultPresent,     \* $HOME/.hranoprovod/config exists
          cflag, cenv,        \* "unset" | "exists" | "missing": --config / HR_CONFIG
          nodb,               \* --no-database
          pc,                 \* "config" | "populate" | "done" | "error"
          loaded,             \* which configuration file was read: "none" | "default" | "flag" | "env"
          eff                 \* [Settings -> source token]: effective values

vars == <<flag, env, cfg, defaultPresent, cflag, cenv, nodb, pc, loaded, eff>>

Bools(s) == IF s \in Vary THEN BOOLEAN ELSE {FALSE}
Loc == {"unset", "exists", "missing"}

Init ==
  /\ flag \in [Settings -> BOOLEAN] /\ \A s \in Settings : flag[s] \in Bools(s)
  /\ env \in [Settings -> BOOLEAN] /\ \A s \in Settings : env[s] \in Bools(s) /\ (~HasEnv(s) => ~env[s])
  /\ cfg \in [Settings -> BOOLEAN] /\ \A s \in Settings : cfg[s] \in Bools(s)
  /\ IF VaryConfigLocation
     THEN defaultPresent \in BOOLEAN /\ cflag \in Loc /\ cenv \in Loc
     ELSE defaultPresent = FALSE /\ cflag = "exists" /\ cenv = "unset"
  /\ nodb \in (IF "db" \in Vary THEN BOOLEAN ELSE {FALSE})
  /\ pc = "config" /\ loaded = "none"
  /\ eff = [s \in Settings |-> "unknown"]

\* c.String("config") / c.IsSet("config")
ConfigSource == IF cflag # "unset" THEN "flag" ELSE IF cenv # "unset" THEN "env" ELSE "default"
ConfigExists == CASE ConfigSource = "flag" -> cflag = "exists"
                  [] ConfigSource = "env" -> cenv = "exists"
                  [] OTHER -> defaultPresent
ConfigIsSet == ConfigSource # "default"

LoadConfigFile ==
  /\ pc = "config"
  /\ LET exists == IF Impl = "pinned" THEN ~ConfigExists ELSE ConfigExists IN
     IF ~exists /\ ConfigIsSet THEN pc' = "error" /\ UNCHANGED loaded                 \* "File ... not found"
     ELSE IF exists /\ ~ConfigExists THEN pc' = "error" /\ UNCHANGED loaded          \* pinned: os.Open of the missing file fails
     ELSE IF exists THEN pc' = "populate" /\ loaded' = ConfigSource
     ELSE pc' = "populate" /\ UNCHANGED loaded
  /\ UNCHANGED <<flag, env, cfg, defaultPresent, cflag, cenv, nodb, eff>>

\* value in the Options struct after the configuration file was (or was not) read
FromConfig(s) == IF loaded # "none" /\ cfg[s] THEN "config" ELSE "default"
\* c.String / c.Int of a flag: command line, else environment, else the flag's default
FromCli(s) == IF flag[s] THEN "flag" ELSE IF env[s] THEN "env" ELSE "default"
IsSet(s) == flag[s] \/ env[s]

Populate ==
  /\ pc = "populate"
  /\ eff' = [s \in Settings |->
       IF s = "db" /\ nodb THEN (IF Impl = "pinned" THEN FromConfig(s) ELSE "empty")
       ELSE IF IsSet(s) THEN FromCli(s)         \* `c.IsSet(x) || value == ""`: the struct value is never empty here
       ELSE FromConfig(s)]
  /\ pc' = "done"
  /\ UNCHANGED <<flag, env, cfg, defaultPresent, cflag, cenv, nodb, loaded>>

Done == pc \in {"done", "error"} /\ UNCHANGED vars
Next == LoadConfigFile \/ Populate \/ Done

-----------------------------------------------------------------------------
\* C16: flag > environment > configuration file > default
ConfigLoaded == IF cflag # "unset" THEN cflag = "exists" ELSE IF cenv # "unset" THEN cenv = "exists" ELSE defaultPresent
Precedence ==
  pc = "done" =>
    \A s \in Settings :
      (~(s = "db" /\ nodb)) =>
        eff[s] = (IF flag[s] THEN "flag" ELSE IF env[s] THEN "env" ELSE IF ConfigLoaded /\ cfg[s] THEN "config" ELSE "default")
\* an explicitly named configuration file that exists is loaded; one that does not exist is an error
ExplicitConfigLoadedOrError ==
  /\ (pc = "done" /\ cflag = "exists") => loaded = "flag"
  /\ (pc = "done" /\ cflag = "unset" /\ cenv = "exists") => loaded = "env"
  /\ (pc \in {"done", "error"} /\ (cflag = "missing" \/ (cflag = "unset" /\ cenv = "missing"))) => pc = "error"
  /\ (pc \in {"done", "error"} /\ ~(cflag = "missing" \/ (cflag = "unset" /\ cenv = "missing"))) => pc = "done"
  /\ (pc = "done" /\ cflag = "unset" /\ cenv = "unset") => loaded = (IF defaultPresent THEN "default" ELSE "none")
\* --no-database behaves as an empty recipe book
NoDatabaseIsEmptyBook == (pc = "done" /\ nodb) => eff["db"] = "empty"

DumpInv ==
  (Dump /\ pc \in {"done", "error"}) =>
    PrintT(ToJson([flag |-> flag, env |-> env, cfg |-> cfg, defaultPresent |-> defaultPresent, cflag |-> cflag, cenv |-> cenv,
                   nodb |-> nodb, pc |-> pc, loaded |-> loaded, eff |-> eff]))
=============================================================================
