\* every line of length <= 6 over the 11-symbol alphabet (1.9 M lines); table dumped for replay
CONSTANTS
  Alphabet <- Alpha11
  MaxLen = 6
  CC = "#"
  Dump = TRUE
INIT Init
NEXT Next
INVARIANTS GrammarSound NotesNeverEntries MalformedExactly OrphanSilent NameShape PrintFormReadsBack NoteFixpoint DumpInv
CHECK_DEADLOCK FALSE
