\* book FILES with repeated headings: every sequence of <= 3 records over 2 recipe names x <= 2 ingredients over 3 names; last definition wins
CONSTANTS
  Recipes = {1, 2}
  Leaves = {3}
  MaxIngr = 2
  Depths = {10}
  Impl = "repaired"
  CoefTable <- CoefPrimes
  Dump = TRUE
INIT InitRecords
NEXT Next
INVARIANTS ResolvedIsSumOfProducts NoRecipeLeft SortedNoDuplicates KeysStable DepthErrorIffHeight DumpInv
CHECK_DEADLOCK FALSE
