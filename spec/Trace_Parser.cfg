CONSTANTS
  MaxLines = 1000000
  Kinds = {"blank", "comment", "head", "note", "entry", "badsyntax", "badnumber"}
  Policies = {}
  Faults = FALSE
  Impl = "repaired"
  Dump = FALSE
INIT TInit
NEXT TNext
CONSTRAINT Mark
INVARIANTS TTypeOK RecordsExact LineNumberPhysical FirstErrorReturned AllErrorsOnceInOrder ScanFailureIsError SuccessMeansAllLinesSeen
POSTCONDITION Rejected
CHECK_DEADLOCK FALSE
