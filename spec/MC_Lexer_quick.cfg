\* every line of length <= 5 over the 11-symbol alphabet (177 k lines); table dumped for replay
CONSTANTS
  Alphabet <- Alpha11
  MaxLen = 5
  CC = "#"
  Dump = TRUE
INIT Init
NEXT Next
INVARIANTS GrammarSound NotesNeverEntries MalformedExactly OrphanSilent NameShape PrintFormReadsBack NoteFixpoint DumpInv
CHECK_DEADLOCK FALSE
