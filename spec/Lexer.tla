-------------------------------- MODULE Lexer --------------------------------
(***************************************************************************)
(* Character-level model of the hand-written tokenizer of                  *)
(* parser.ParseStreamCallback (parser/parser.go:94-149, 175-188).          *)
(*                                                                         *)
(* A line is a sequence of one-character strings over a small alphabet.    *)
(* The double quote is written "q" (so the letter q is not in any          *)
(* alphabet); the harness maps it back.  The state machine is trivial      *)
(* (line' = Append(line, c)): the set of ALL lines up to MaxLen is TLC's   *)
(* state space and every theorem below is an invariant.                    *)
(*                                                                         *)
(* Two independent descriptions are related:                               *)
(*   Lex(line, inRecord)   transcription of the code: the two trim sets,   *)
(*                         classification by first byte, last-blank split; *)
(*   GEntry / GHead / GNote  the documented format (docs/syntax.ebnf,      *)
(*                         README) as a right-to-left structural           *)
(*                         recogniser that never trims.                    *)
(***************************************************************************)
EXTENDS Integers, Sequences, FiniteSets, TLC, Json

CONSTANTS Alphabet,   \* set of one-character strings
          MaxLen,     \* lines of length 0..MaxLen
          Dump,       \* TRUE: print the table line -> Lex(line) as JSON
          CC          \* parser.Config.CommentChar ("#" by default and in the documented format)

VARIABLE line

Blank    == {" ", "\t"}
TrimText == {"\t", " ", "\n", ":", "q", "-"}   \* parser.go: trimText = "\t \n:\"-"
TrimQty  == {"\t", " ", "\n", ":", "q"}        \* parser.go: trimQty  = "\t \n:\""
Digit    == {"0", "1", "2", "3", "4", "5", "6", "7", "8", "9"}
Sign     == {"+", "-"}

-----------------------------------------------------------------------------
(* string helpers                                                           *)

IdxNotIn(s, cs) == {i \in 1..Len(s) : s[i] \notin cs}
IdxIn(s, cs)    == {i \in 1..Len(s) : s[i] \in cs}
MinOf(S) == CHOOSE x \in S : \A y \in S : x <= y
MaxOf(S) == CHOOSE x \in S : \A y \in S : y <= x

\* strings.Trim(s, cutset)
Trim(s, cs) == LET I == IdxNotIn(s, cs) IN IF I = {} THEN <<>> ELSE SubSeq(s, MinOf(I), MaxOf(I))

\* strings.LastIndexAny(s, chars) (1-based; 0 = not found)
LastIndexAny(s, cs) == LET I == IdxIn(s, cs) IN IF I = {} THEN 0 ELSE MaxOf(I)
\* strings.Index(s, c)
IndexOf(s, c) == LET I == IdxIn(s, {c}) IN IF I = {} THEN 0 ELSE MinOf(I)

\* number of consecutive digits of s starting at position i
RECURSIVE DigitsFrom(_, _)
DigitsFrom(s, i) == IF i <= Len(s) /\ s[i] \in Digit THEN 1 + DigitsFrom(s, i + 1) ELSE 0

-----------------------------------------------------------------------------
(* The language strconv.ParseFloat(s, 64) accepts without error, restricted *)
(* to the alphabets used here (no letters of inf / nan / hex, no '_'):      *)
(*   [+-] ( d+ [. d*] | . d+ ) [ (e|E) [+-] d+ ]   and the value in range.  *)
(* Range: the only out-of-range literals expressible with digits {0,1} in   *)
(* <= 9 characters have a positive exponent of four or more digits.         *)

FloatShape(s) ==
  LET a      == IF s # <<>> /\ s[1] \in Sign THEN 2 ELSE 1
      d1     == DigitsFrom(s, a)
      p      == a + d1
      hasDot == p <= Len(s) /\ s[p] = "."
      d2     == IF hasDot THEN DigitsFrom(s, p + 1) ELSE 0
      q      == IF hasDot THEN p + 1 + d2 ELSE p
      hasExp == q <= Len(s) /\ s[q] \in {"e", "E"}
      es     == IF hasExp /\ q + 1 <= Len(s) /\ s[q + 1] \in Sign THEN 1 ELSE 0
      d3     == IF hasExp THEN DigitsFrom(s, q + 1 + es) ELSE 0
      end    == IF hasExp THEN q + 1 + es + d3 ELSE q
      nonzero == \E i \in a..(q - 1) : s[i] \in Digit \ {"0"}
      negExp == hasExp /\ es = 1 /\ s[q + 1] = "-"
  IN [ok    |-> d1 + d2 >= 1 /\ (hasExp => d3 >= 1) /\ end = Len(s) + 1,
      range |-> hasExp /\ ~negExp /\ d3 >= 4 /\ nonzero]

IsFloatLit(s) == LET f == FloatShape(s) IN f.ok /\ ~f.range

-----------------------------------------------------------------------------
(* getMetadataPair (parser.go:175-188).  strings.TrimSpace = Trim by Blank  *)
(* on these alphabets.                                                      *)

NoteParse(t) ==
  LET u   == Trim(Trim(t, {"#"}), Blank)
      sep == IndexOf(u, ":")
  IN IF sep > 0
     THEN [name  |-> Trim(SubSeq(u, 1, sep - 1), {"#", " ", "\t"}),
           value |-> Trim(SubSeq(u, sep + 1, Len(u)), Blank)]
     ELSE [name |-> <<>>, value |-> u]

-----------------------------------------------------------------------------
(* The tokenizer.  inRecord = a heading has been seen (node # nil).         *)

Lex(l, inRecord) ==
  LET t == Trim(l, TrimText) IN
  IF t = <<>> \/ l[1] = CC THEN [k |-> "skip"]
  ELSE IF l[1] \notin {" ", "\t", "-"} THEN [k |-> "head", name |-> t]
  ELSE IF ~inRecord THEN [k |-> "orphan"]          \* indented line before any heading: ignored
  ELSE IF t[1] = CC THEN [k |-> "note", note |-> NoteParse(t)]      \* getMetadataPair strips "#" literally, whatever CC is
  ELSE LET p == LastIndexAny(t, Blank) IN
       IF p = 0 THEN [k |-> "badsyntax"]
       ELSE LET name == Trim(SubSeq(t, 1, p - 1), TrimText)
                num  == Trim(SubSeq(t, p, Len(t)), TrimQty)
            IN IF IsFloatLit(num) THEN [k |-> "entry", name |-> name, num |-> num]
               ELSE [k |-> "badnumber", num |-> num]

-----------------------------------------------------------------------------
(* The documented format, as structural recognisers (no trimming).          *)

AllIn(s, a, b, cs) == \A i \in a..b : s[i] \in cs

\* Entry:  (Blank+ | Blank* "-" Blank+)  ["]name["]  ":"  Blank+  number  Blank*
GEntry(l) ==
  LET n   == Len(l)
      NB  == IdxNotIn(l, Blank)
      d   == IF NB = {} THEN 0 ELSE MaxOf(NB)                      \* last character of the number
      c0  == IF d = 0 THEN 0 ELSE LastIndexAny(SubSeq(l, 1, d), Blank)   \* blank just before the number
      NB2 == IF c0 = 0 THEN {} ELSE IdxNotIn(SubSeq(l, 1, c0), Blank)
      col == IF NB2 = {} THEN 0 ELSE MaxOf(NB2)                    \* must be the colon
      f   == IF NB = {} THEN 0 ELSE MinOf(NB)                      \* first non-blank character
      dash == f > 0 /\ l[f] = "-" /\ f + 1 <= n /\ l[f + 1] \in Blank
      s   == IF dash THEN MinOf({i \in (f + 1)..n : l[i] \notin Blank}) ELSE f
      quoted == col > 0 /\ s > 0 /\ s < col - 1 /\ l[s] = "q" /\ l[col - 1] = "q"
      a   == IF quoted THEN s + 1 ELSE s
      b   == IF quoted THEN col - 2 ELSE col - 1
  IN IF /\ d > 0 /\ c0 > 0 /\ col > 0 /\ l[col] = ":"
        /\ (f > 1 \/ dash)
        /\ a >= 1 /\ a <= b /\ s <= col - 1
        /\ l[a] \notin TrimText \cup {"#"} /\ l[b] \notin TrimText
        /\ IsFloatLit(SubSeq(l, c0 + 1, d))
     THEN [k |-> "entry", name |-> SubSeq(l, a, b), num |-> SubSeq(l, c0 + 1, d)]
     ELSE [k |-> "none"]

\* Heading:  ["]name["] ":" Blank*   starting in column 1 with a character that is no blank, dash or '#'
GHead(l) ==
  LET n   == Len(l)
      NB  == IdxNotIn(l, Blank)
      col == IF NB = {} THEN 0 ELSE MaxOf(NB)
      quoted == col > 3 /\ l[1] = "q" /\ l[col - 1] = "q"
      a   == IF quoted THEN 2 ELSE 1
      b   == IF quoted THEN col - 2 ELSE col - 1
  IN IF /\ col > 1 /\ l[col] = ":" /\ l[1] \notin Blank \cup {"-", "#"}
        /\ a <= b /\ l[a] \notin TrimText /\ l[b] \notin TrimText
     THEN [k |-> "head", name |-> SubSeq(l, a, b)]
     ELSE [k |-> "none"]

\* characters of documented note texts: letters, digits and inner blanks
Word == Alphabet \ (TrimText \cup {"#", ".", "+"})
\* Note:  Blank+ "#" Blank* ( text | name ":" Blank* text ) Blank*, name and text made of Word characters and inner blanks
GNote(l) ==
  LET n  == Len(l)
      NB == IdxNotIn(l, Blank)
      f  == IF NB = {} THEN 0 ELSE MinOf(NB)
      e  == IF NB = {} THEN 0 ELSE MaxOf(NB)
      body == IF f > 0 /\ f < e THEN Trim(SubSeq(l, f + 1, e), Blank) ELSE <<>>
      sep  == IndexOf(body, ":")
      nm   == IF sep > 0 THEN Trim(SubSeq(body, 1, sep - 1), Blank) ELSE <<>>
      val  == IF sep > 0 THEN Trim(SubSeq(body, sep + 1, Len(body)), Blank) ELSE body
      wordy(x) == \A i \in 1..Len(x) : x[i] \in Word \cup Blank
  IN IF f > 1 /\ l[f] = "#" /\ val # <<>> /\ wordy(nm) /\ wordy(val) /\ (sep > 0 => nm # <<>>)
     THEN [k |-> "note", note |-> [name |-> nm, value |-> val]]
     ELSE [k |-> "none"]

-----------------------------------------------------------------------------
(* what print writes (print_reporter.go:24-49); "1.11" stands for any %0.2f text *)
Lit == <<"1", ".", "1", "1">>
PrintEntry(name) == <<" ", " ", "-", " ">> \o name \o <<":", " ">> \o Lit
PrintNote(nt) == IF nt.name # <<>> THEN <<" ", " ", "#", " ">> \o nt.name \o <<":", " ">> \o nt.value
                 ELSE <<" ", " ", "#", " ">> \o nt.value

-----------------------------------------------------------------------------
Init == line = <<>>
Next == Len(line) < MaxLen /\ \E c \in Alphabet : line' = Append(line, c)
Spec == Init /\ [][Next]_line

-----------------------------------------------------------------------------
(* theorems (invariants over all lines)                                     *)

\* C04: every entry / heading / note of the documented format lexes to exactly its name and number,
\* whatever the layout (blanks vs tabs, dash, quotes, trailing blanks): layout never reaches the result
GrammarSound ==
  /\ LET g == GEntry(line) IN g.k = "entry" => Lex(line, TRUE) = g
  /\ LET g == GHead(line)  IN g.k = "head"  => Lex(line, TRUE) = g /\ Lex(line, FALSE) = g
  /\ LET g == GNote(line)  IN g.k = "note"  => Lex(line, TRUE) = g

\* C04: comment lines, blank lines and notes never become entries
NotesNeverEntries ==
  LET NB == IdxNotIn(line, Blank \cup {"-"}) IN
  /\ (line # <<>> /\ line[1] = "#") => Lex(line, TRUE).k = "skip"
  /\ (NB = {}) => Lex(line, TRUE).k = "skip"
  /\ (NB # {} /\ line[MinOf(NB)] = "#") => Lex(line, TRUE).k \in {"skip", "note", "head"}

\* C09: inside a record a line is reported as malformed exactly when it is indented (or dashed), is
\* not blank, not a comment, not a note, and either has no blank before its last token or that token
\* (with surrounding quotes/colons removed) is not a number
Core(l) == Trim(l, TrimText)
Malformed(l) ==
  /\ l # <<>> /\ l[1] \in Blank \cup {"-"}
  /\ Core(l) # <<>> /\ Core(l)[1] # "#"
  /\ \/ IdxIn(Core(l), Blank) = {}
     \/ ~IsFloatLit(Trim(SubSeq(Core(l), LastIndexAny(Core(l), Blank) + 1, Len(Core(l))), TrimQty))
MalformedExactly == (Lex(line, TRUE).k \in {"badsyntax", "badnumber"}) <=> Malformed(line)

\* before the first heading nothing is reported (indented lines are ignored: a named deviation)
OrphanSilent == Lex(line, FALSE).k \in {"skip", "head", "orphan"}

\* names the tokenizer can produce never start or end with a trim character and never start with '#'
NameShape ==
  LET r == Lex(line, TRUE) IN
  r.k \in {"entry", "head"} => /\ r.name # <<>>
                                /\ r.name[1] \notin TrimText /\ r.name[Len(r.name)] \notin TrimText
                                /\ (r.k = "entry" => r.name[1] # "#")

\* C14: what print writes for an entry reads back to the same name and number text
PrintFormReadsBack ==
  LET r == Lex(line, TRUE) IN
  r.k = "entry" => Lex(PrintEntry(r.name), TRUE) = [k |-> "entry", name |-> r.name, num |-> Lit]

\* C14: a note of the documented forms, once parsed, is a fixpoint of print -> parse
NoteFixpoint ==
  LET g == GNote(line) IN
  g.k = "note" => Lex(PrintNote(g.note), TRUE) = [k |-> "note", note |-> g.note]

\* observation (not claimed by C14): arbitrary notes reach a fixpoint after TWO parses at the latest
NoteSecondParseFixpoint ==
  LET r == Lex(line, TRUE) IN
  r.k = "note" =>
     LET r2 == Lex(PrintNote(r.note), TRUE) IN
     r2.k \in {"note", "skip"} /\ (r2.k = "note" => LET r3 == Lex(PrintNote(r2.note), TRUE) IN r3.k = "skip" \/ r3 = r2 \/ Lex(PrintNote(r3.note), TRUE) = r3)

\* the table line -> classification, replayed through the real tokenizer
DumpInv ==
  Dump => PrintT(ToJson([line |-> line, rec |-> Lex(line, TRUE), orphan |-> Lex(line, FALSE).k]))
=============================================================================
