------------------------------ MODULE Present ------------------------------
(***************************************************************************)
(* Presentation of the register: how a day's report item (Reporters.tla:   *)
(* foods with their ingredient rows, totals) becomes printed lines under   *)
(* the presentation switches                                               *)
(*   template  default | left (--internal-template-name left-aligned)      *)
(*             | old (--use-old-reg-reporter)                              *)
(*   colour    (--no-color absent)     shorten (--shorten)                 *)
(*   mode      both | nototals (--no-totals) | totalsonly (--totals-only)  *)
(*                                                                         *)
(* A printed line is a record [k, d, f]: its kind, the date text (date     *)
(* lines) and the sequence of FIELDS in the order they are printed.  A     *)
(* field is a name (which name, and whether it was cut to its column) or   *)
(* an amount (its value and its colour).  Widths, padding and the fixed    *)
(* header text are layout and are not modelled.                            *)
(*                                                                         *)
(* One action per step of the code: BuildItem = reporter.GetReportItem     *)
(* (report_item.go:43-76: the Totals / TotalsOnly switches decide what the *)
(* item holds), then one of RenderDefault / RenderLeft                     *)
(* (reg_reporter_template.go, two templates over the same item) or         *)
(* RenderOld (reg_reporter.go:51-124, its own print functions).            *)
(***************************************************************************)
EXTENDS Integers, Sequences, FiniteSets, TLC

CONSTANTS DaySeqs,    \* the histories explored: sequences of [date, foods, totals]
          Lens,       \* name id -> length in runes
          Templates, Dump

VARIABLES days,       \* the full report items of the selected days (Reporters.tla: reg)
          lens,       \* name id -> length in runes
          flags,      \* [tpl, colour, shorten, mode]
          i,          \* days processed
          item,       \* the item GetReportItem built for day i+1 (NoItem between days)
          out,        \* lines printed so far
          done

vars == <<days, lens, flags, i, item, out, done>>

Modes == {"both", "nototals", "totalsonly"}
FlagSets == [tpl : Templates, colour : BOOLEAN, shorten : BOOLEAN, mode : Modes]

FoodW == 27   \* column of a food name in the default template
RowW  == 20   \* column of an ingredient / total name

NoItem == [date |-> -1, foods |-> <<>>, totals |-> <<>>, hdr |-> FALSE]

Init ==
  /\ days \in DaySeqs /\ lens = Lens /\ flags \in FlagSets
  /\ i = 0 /\ item = NoItem /\ out = <<>> /\ done = FALSE

-----------------------------------------------------------------------------
Sign(v) == IF v > 0 THEN "red" ELSE IF v < 0 THEN "green" ELSE "none"

\* fields, as functions of the flags fl
Amt(v, fl)     == [t |-> "amt", id |-> 0, cut |-> FALSE, v |-> v, col |-> IF fl.colour THEN Sign(v) ELSE "none"]
\* shorten(name, w) of the default template; w = 0: the template / reporter prints the name as it is
Nm(n, w, fl)   == [t |-> "name", id |-> n, cut |-> fl.shorten /\ w > 0 /\ lens[n] > w, v |-> 0, col |-> "none"]
Line(k, dt, f) == [k |-> k, d |-> dt, f |-> f]

RECURSIVE Flatten(_)
Flatten(ss) == IF ss = <<>> THEN <<>> ELSE Head(ss) \o Flatten(Tail(ss))

\* GetReportItem: TotalsOnly empties Elements; Totals is a POINTER to the slice of totals, nil only when totals are
\* switched off - so the templates' `if .Totals` prints the TOTAL header for every day, also for one that
\* contributes nothing (hdr), whereas the old reporter tests len(acc) > 0.  The header is layout, not a record.
ItemOf(day, fl) == [date   |-> day.date,
                    foods  |-> IF fl.mode = "totalsonly" THEN <<>> ELSE day.foods,
                    totals |-> IF fl.mode = "nototals" THEN <<>> ELSE day.totals,
                    hdr    |-> fl.mode # "nototals"]

\* defaultTemplate: "\t%-27s :%s", "\t\t%20s %s", header iff .Totals, "\t\t%20s %s %s =%s"
LinesDefault(it, fl) ==
  <<Line("date", it.date, <<>>)>>
  \o Flatten([x \in 1..Len(it.foods) |->
        <<Line("food", 0, <<Nm(it.foods[x].name, FoodW, fl), Amt(it.foods[x].qty, fl)>>)>>
        \o [y \in 1..Len(it.foods[x].ingr) |->
              Line("ingr", 0, <<Nm(it.foods[x].ingr[y][1], RowW, fl), Amt(it.foods[x].ingr[y][2], fl)>>)]])
  \o (IF ~it.hdr THEN <<>> ELSE
        <<Line("hdr", 0, <<>>)>>
        \o [x \in 1..Len(it.totals) |->
              Line("total", 0, <<Nm(it.totals[x].name, RowW, fl), Amt(it.totals[x].pos, fl), Amt(it.totals[x].neg, fl), Amt(it.totals[x].sum, fl)>>)])

\* leftAlignedTemplate: amounts first, the name last and never shortened
LinesLeft(it, fl) ==
  <<Line("date", it.date, <<>>)>>
  \o Flatten([x \in 1..Len(it.foods) |->
        <<Line("food", 0, <<Amt(it.foods[x].qty, fl), Nm(it.foods[x].name, 0, fl)>>)>>
        \o [y \in 1..Len(it.foods[x].ingr) |->
              Line("ingr", 0, <<Amt(it.foods[x].ingr[y][2], fl), Nm(it.foods[x].ingr[y][1], 0, fl)>>)]])
  \o (IF ~it.hdr THEN <<>> ELSE
        <<Line("hdr", 0, <<>>)>>
        \o [x \in 1..Len(it.totals) |->
              Line("total", 0, <<Amt(it.totals[x].pos, fl), Amt(it.totals[x].neg, fl), Amt(it.totals[x].sum, fl), Nm(it.totals[x].name, 0, fl)>>)])

\* regReporter: printDate, printElement, printIngredient, printTotalHeader (len(acc) > 0), printTotalRow; no shortening.
\* It walks the day itself (TotalsOnly / Totals are tested inline) instead of building an item.
LinesOld(day, fl) ==
  <<Line("date", day.date, <<>>)>>
  \o (IF fl.mode = "totalsonly" THEN <<>> ELSE
        Flatten([x \in 1..Len(day.foods) |->
          <<Line("food", 0, <<Nm(day.foods[x].name, 0, fl), Amt(day.foods[x].qty, fl)>>)>>
          \o [y \in 1..Len(day.foods[x].ingr) |->
                Line("ingr", 0, <<Nm(day.foods[x].ingr[y][1], 0, fl), Amt(day.foods[x].ingr[y][2], fl)>>)]]))
  \o (IF fl.mode = "nototals" \/ day.totals = <<>> THEN <<>> ELSE
        <<Line("hdr", 0, <<>>)>>
        \o [x \in 1..Len(day.totals) |->
              Line("total", 0, <<Nm(day.totals[x].name, 0, fl), Amt(day.totals[x].pos, fl), Amt(day.totals[x].neg, fl),
                                 Amt(day.totals[x].pos + day.totals[x].neg, fl)>>)])

RenderDay(day, fl) ==
  CASE fl.tpl = "default" -> LinesDefault(ItemOf(day, fl), fl)
    [] fl.tpl = "left"    -> LinesLeft(ItemOf(day, fl), fl)
    [] fl.tpl = "old"     -> LinesOld(day, fl)

-----------------------------------------------------------------------------
BuildItem ==
  /\ ~done /\ i < Len(days) /\ item = NoItem /\ flags.tpl # "old"
  /\ item' = ItemOf(days[i + 1], flags)
  /\ UNCHANGED <<days, lens, flags, i, out, done>>

RenderDefault ==
  /\ item # NoItem /\ flags.tpl = "default"
  /\ out' = out \o LinesDefault(item, flags)
  /\ i' = i + 1 /\ item' = NoItem
  /\ UNCHANGED <<days, lens, flags, done>>

RenderLeft ==
  /\ item # NoItem /\ flags.tpl = "left"
  /\ out' = out \o LinesLeft(item, flags)
  /\ i' = i + 1 /\ item' = NoItem
  /\ UNCHANGED <<days, lens, flags, done>>

RenderOld ==
  /\ ~done /\ i < Len(days) /\ flags.tpl = "old"
  /\ out' = out \o LinesOld(days[i + 1], flags)
  /\ i' = i + 1
  /\ UNCHANGED <<days, lens, flags, item, done>>

\* one day of the walk as a single step (what a trace of the program shows: the lines of one day)
ProcessDay ==
  /\ ~done /\ i < Len(days) /\ item = NoItem
  /\ out' = out \o RenderDay(days[i + 1], flags)
  /\ i' = i + 1
  /\ UNCHANGED <<days, lens, flags, item, done>>

Finish == ~done /\ i = Len(days) /\ done' = TRUE /\ UNCHANGED <<days, lens, flags, i, item, out>>
Terminated == done /\ UNCHANGED vars

Next == BuildItem \/ RenderDefault \/ RenderLeft \/ RenderOld \/ Finish \/ Terminated
Spec == Init /\ [][Next]_vars /\ WF_vars(Next)

-----------------------------------------------------------------------------
(* C15 *)
Plain == [tpl |-> "default", colour |-> FALSE, shorten |-> FALSE, mode |-> flags.mode]
Whole(fl) == Flatten([x \in 1..Len(days) |-> RenderDay(days[x], fl)])

\* what a line SHOWS, whatever the layout: its kind, date, the names and the amounts in their own orders
NamesOf(f) == LET s == SelectSeq(f, LAMBDA x : x.t = "name") IN [k \in 1..Len(s) |-> s[k].id]
AmtsOf(f)  == LET s == SelectSeq(f, LAMBDA x : x.t = "amt") IN [k \in 1..Len(s) |-> s[k].v]
Shown(ls)  == LET rec == SelectSeq(ls, LAMBDA x : x.k # "hdr") IN      \* the TOTAL header is layout
              [k \in 1..Len(rec) |-> [k |-> rec[k].k, d |-> rec[k].d, names |-> NamesOf(rec[k].f), amts |-> AmtsOf(rec[k].f)]]

\* the state machine prints the concatenation of the days' renderings
OutIsConcatenation == done => out = Whole(flags)
\* every template, colour and shorten setting shows the records of the plain default rendering of the same mode
SameRecords == done => Shown(out) = Shown(Whole(Plain))
\* default = per day the no-totals lines followed by the totals-only lines without their date line
Interleaved ==
  (done /\ flags.mode = "both") =>
    \A x \in 1..Len(days) :
      RenderDay(days[x], flags) = RenderDay(days[x], [flags EXCEPT !.mode = "nototals"]) \o Tail(RenderDay(days[x], [flags EXCEPT !.mode = "totalsonly"]))
\* coloured output without its colours is the uncoloured output
Uncolour(ls) == [k \in 1..Len(ls) |-> [ls[k] EXCEPT !.f = [y \in 1..Len(ls[k].f) |-> [ls[k].f[y] EXCEPT !.col = "none"]]]]
StripIsPlain == done => Uncolour(out) = Whole([flags EXCEPT !.colour = FALSE])
ColourBySign ==
  \A k \in 1..Len(out) : \A y \in 1..Len(out[k].f) :
    LET x == out[k].f[y] IN x.t = "amt" => x.col = (IF ~flags.colour THEN "none" ELSE IF x.v > 0 THEN "red" ELSE IF x.v < 0 THEN "green" ELSE "none")
\* a name is cut only under --shorten in the default template and only when it does not fit its column
CutOnlyWhenTooLong ==
  \A k \in 1..Len(out) : \A y \in 1..Len(out[k].f) :
    LET x == out[k].f[y] IN
      x.t = "name" => (x.cut <=> (flags.shorten /\ flags.tpl = "default" /\ lens[x.id] > (IF out[k].k = "food" THEN FoodW ELSE RowW)))
\* a day never rewrites what earlier days printed
AppendOnly == [][Len(out') >= Len(out) /\ SubSeq(out', 1, Len(out)) = out]_vars
\* the two-step path BuildItem ; Render* and the one-step RenderOld print exactly ProcessDay's lines
StepIsRenderDay == [][i' = i + 1 => out' = out \o RenderDay(days[i'], flags)]_vars
Ends == <>done
=============================================================================
