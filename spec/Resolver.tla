------------------------------- MODULE Resolver -------------------------------
(***************************************************************************)
(* resolver.Resolve (and the deprecated Resolver.Resolve, which now calls  *)
(* it): the recipe book is a map from recipe name to a list of            *)
(* <<ingredient name, coefficient>>; Resolve ranges over the map in an    *)
(* order chosen by the runtime and resolves every recipe IN PLACE by a    *)
(* depth-first walk.  One spec action per top-level visit (Visit(n)): the *)
(* choice of n among the pending names IS the map-iteration               *)
(* nondeterminism.  The effect of a visit is the deterministic recursive  *)
(* operator ResolveFrom, a transcription of resolveNode (resolver.go).    *)
(*                                                                         *)
(* Names are integers; their order is the byte order of the concrete      *)
(* strings the harness assigns (so < on ids is sort.Strings).             *)
(* Coefficients are integers in a unit chosen by the harness.             *)
(*                                                                         *)
(* Impl = "pinned"   : the code as first found (no memo of heights: the   *)
(*                     depth error depends on the visiting order);        *)
(* Impl = "repaired" : the code after "fix: resolver depth error depended *)
(*                     on map iteration order" (heights kept per recipe). *)
(***************************************************************************)
EXTENDS Integers, Sequences, FiniteSets, TLC, SequencesExt, Json

CONSTANTS Recipes,    \* ids that may be defined as recipes
          Leaves,     \* ids that are never defined (basic elements)
          MaxIngr,    \* at most this many ingredients per recipe
          Depths,     \* the depth limits N explored (a set)
          Impl,       \* "pinned" | "repaired"
          CoefTable,  \* sequence of integers: coefficient of position (r,i)
          Dump        \* TRUE: print one JSON line per terminal state (replayed on the code)

Names == Recipes \cup Leaves

VARIABLES decl,     \* the records of the book file in declaration order (<<>> when the book is given directly);
                    \* a heading may occur more than once: DBNodeMap.Push overwrites, the LAST definition wins
          book0,    \* the book as parsed (never changes)
          db,       \* the book being resolved in place
          heights,  \* repaired code: name -> height of its original reference tree, -1 = not resolved yet
          pending,  \* names the outer range has not produced yet
          order,    \* history: visiting order so far
          status,   \* "running" | "ok" | "depthError"
          maxDepth  \* the limit N

vars == <<decl, book0, db, heights, pending, order, status, maxDepth>>

Coef(r, i) == CoefTable[(((r - 1) * MaxIngr + i - 1) % Len(CoefTable)) + 1]

\* (operators with a parameter, so that TLC does not pre-evaluate these sets as constants: the chain
\*  configurations have 14 recipes and never use them)
IngrLists(m) == UNION {[1..k -> Names] : k \in 0..m}
Books(Rs) == UNION {[D -> IngrLists(MaxIngr)] : D \in SUBSET Rs}
WithCoef(b) == [r \in DOMAIN b |-> [i \in 1..Len(b[r]) |-> <<b[r][i], Coef(r, i)>>]]

Max2(a, b) == IF a >= b THEN a ELSE b

-----------------------------------------------------------------------------
(* element list operations: element.go                                      *)

RECURSIVE IndexOf(_, _, _)
IndexOf(el, name, i) ==
  IF i > Len(el) THEN 0 ELSE IF el[i][1] = name THEN i ELSE IndexOf(el, name, i + 1)

\* Elements.SumMerge(left, mult): add or accumulate, first-seen position kept
RECURSIVE SumMerge(_, _, _, _)
SumMerge(el, left, mult, i) ==
  IF i > Len(left) THEN el
  ELSE LET v  == left[i]
           k  == IndexOf(el, v[1], 1)
           e2 == IF k > 0 THEN [el EXCEPT ![k] = <<v[1], el[k][2] + v[2] * mult>>]
                 ELSE Append(el, <<v[1], v[2] * mult>>)
       IN SumMerge(e2, left, mult, i + 1)

SortEl(el) == SortSeq(el, LAMBDA a, b : a[1] < b[1])

-----------------------------------------------------------------------------
(* resolveNode: returns [db, hs, err, h]                                    *)

Failed(d, hs) == [db |-> d, hs |-> hs, err |-> TRUE, h |-> 0]

RECURSIVE ResolveFrom(_, _, _, _, _), Ingr(_, _, _, _, _, _, _, _)
ResolveFrom(N, d, hs, name, level) ==
  IF level >= N THEN Failed(d, hs)
  ELSE IF name \notin DOMAIN d THEN [db |-> d, hs |-> hs, err |-> FALSE, h |-> 0]
  ELSE IF Impl = "repaired" /\ hs[name] >= 0 THEN
         IF level + hs[name] >= N THEN Failed(d, hs)
         ELSE [db |-> d, hs |-> hs, err |-> FALSE, h |-> hs[name]]
  ELSE Ingr(N, d, hs, name, level, 1, <<>>, 0)

Ingr(N, d, hs, name, level, i, nel, height) ==
  IF i > Len(d[name])
  THEN [db  |-> [d EXCEPT ![name] = SortEl(nel)],
        hs  |-> [hs EXCEPT ![name] = height],
        err |-> FALSE, h |-> height]
  ELSE LET e == d[name][i]
           r == ResolveFrom(N, d, hs, e[1], level + 1)
       IN IF r.err THEN r
          ELSE LET d2   == r.db
                   nel2 == IF e[1] \in DOMAIN d2
                           THEN SumMerge(nel, d2[e[1]], e[2], 1)
                           ELSE SumMerge(nel, <<e>>, 1, 1)
               IN Ingr(N, d2, r.hs, name, level, i + 1, nel2, Max2(height, r.h + 1))

NoHeights == [n \in Names |-> -1]

-----------------------------------------------------------------------------
(* declarative counterparts, used only in properties                        *)

\* number of references on the longest chain starting at n, capped at k: computed by k rounds
\* of  H'(n) = 0 for basic elements and empty recipes, else 1 + max H(ingredients);
\* after k rounds H(n) = min(true height, k), and on every cycle the true height is infinite
SetMax(S) == CHOOSE h \in S : \A g \in S : g <= h
K == Cardinality(Names)
ASSUME Names = 1..K      \* ids are contiguous: heights are kept in a tuple indexed by id
\* (tuples built with Append are evaluated eagerly; a function constructor would be re-evaluated
\*  at every application and make the rounds exponential)
RECURSIVE HRound(_, _, _, _), HeightIter(_, _, _)
HRound(b, H, n, acc) ==
  IF n > K THEN acc
  ELSE HRound(b, H, n + 1,
         Append(acc, IF n \notin DOMAIN b \/ Len(b[n]) = 0 THEN 0
                     ELSE 1 + SetMax({H[b[n][i][1]] : i \in 1..Len(b[n])})))
HeightIter(b, H, k) == IF k = 0 THEN H ELSE HeightIter(b, HRound(b, H, 1, <<>>), k - 1)

MaxHeight(b, k) ==
  LET H == HeightIter(b, [n \in 1..K |-> 0], k) IN SetMax({H[n] : n \in 1..K})

\* basic elements reachable from n (acyclic books only)
RECURSIVE Reach(_, _)
Reach(b, n) == IF n \notin DOMAIN b THEN {n}
               ELSE UNION {Reach(b, b[n][i][1]) : i \in 1..Len(b[n])}

\* sum over all ingredient paths from n to basic element e of the product of the coefficients
RECURSIVE Amount(_, _, _), AmountFrom(_, _, _, _)
Amount(b, n, e) == IF n \notin DOMAIN b THEN (IF n = e THEN 1 ELSE 0) ELSE AmountFrom(b, n, e, 1)
AmountFrom(b, n, e, i) ==
  IF i > Len(b[n]) THEN 0
  ELSE b[n][i][2] * Amount(b, b[n][i][1], e) + AmountFrom(b, n, e, i + 1)

Expand(b, n) ==
  LET L == Reach(b, n)
      S == SetToSortSeq(L, LAMBDA x, y : x < y)
  IN [k \in 1..Len(S) |-> <<S[k], Amount(b, n, S[k])>>]

-----------------------------------------------------------------------------
\* utils.LoadDatabaseFromStream: records are pushed into the map in file order
RECURSIVE LastWins(_, _, _)
LastWins(recs, i, b) ==
  IF i > Len(recs) THEN b
  ELSE LastWins(recs, i + 1, [n \in DOMAIN b \cup {recs[i].name} |-> IF n = recs[i].name THEN recs[i].ingr ELSE b[n]])
EmptyBook == [n \in {} |-> <<>>]

Init == /\ decl = <<>>
        /\ book0 \in {WithCoef(b) : b \in Books(Recipes)}
        /\ maxDepth \in Depths
        /\ db = book0
        /\ heights = NoHeights
        /\ pending = DOMAIN book0
        /\ order = <<>>
        /\ status = "running"

Visit(n) ==
  /\ status = "running"
  /\ n \in pending
  /\ LET r == ResolveFrom(maxDepth, db, heights, n, 0)
     IN /\ db' = r.db
        /\ heights' = r.hs
        /\ status' = IF r.err THEN "depthError" ELSE "running"
  /\ pending' = pending \ {n}
  /\ order' = Append(order, n)
  /\ UNCHANGED <<decl, book0, maxDepth>>

Done ==
  /\ status = "running"
  /\ pending = {}
  /\ status' = "ok"
  /\ UNCHANGED <<decl, book0, db, heights, pending, order, maxDepth>>

Next == (\E n \in pending : Visit(n)) \/ Done

Spec == Init /\ [][Next]_vars /\ WF_vars(Next)

-----------------------------------------------------------------------------
(* properties                                                               *)

Terminal == status \in {"ok", "depthError"}

\* C11: the error occurs exactly when some chain is N or more references long (cycles included),
\* whatever the visiting order
DepthErrorIffHeight ==
  /\ status = "depthError" => MaxHeight(book0, maxDepth) >= maxDepth
  /\ status = "ok"         => MaxHeight(book0, maxDepth) <  maxDepth

\* C01: every recipe resolves to the sorted list of <<basic element, sum over paths of products>>
ResolvedIsSumOfProducts ==
  status = "ok" => \A r \in DOMAIN db : db[r] = Expand(book0, r)

NoRecipeLeft ==
  status = "ok" => \A r \in DOMAIN db : \A i \in 1..Len(db[r]) : db[r][i][1] \notin DOMAIN book0

SortedNoDuplicates ==
  status = "ok" => \A r \in DOMAIN db : \A i \in 1..(Len(db[r]) - 1) : db[r][i][1] < db[r][i + 1][1]

\* resolving the resolved book again (fresh memo, any starting recipe) changes nothing
Idempotent ==
  status = "ok" => \A n \in DOMAIN db :
      LET r == ResolveFrom(maxDepth, db, NoHeights, n, 0) IN ~r.err /\ r.db = db

\* the set of defined recipes never changes
KeysStable == DOMAIN db = DOMAIN book0

\* a visit either fails or leaves every earlier resolved recipe untouched
ResolvedStaysResolved ==
  [][\A n \in DOMAIN db : (heights[n] >= 0 /\ status' # "depthError") => db'[n] = db[n]]_vars

Terminates == <>Terminal

-----------------------------------------------------------------------------
(* one JSON line per terminal state, replayed through the real resolver     *)

BookSeq(b) ==
  LET S == SetToSortSeq(DOMAIN b, LAMBDA x, y : x < y)
  IN [k \in 1..Len(S) |-> [name |-> S[k], ingr |-> b[S[k]]]]

DumpInv ==
  (Dump /\ Terminal) =>
     PrintT(ToJson([decl |-> decl, book |-> BookSeq(book0), n |-> maxDepth, order |-> order,
                    status |-> status, db |-> IF status = "ok" THEN BookSeq(db) ELSE <<>>]))

View == <<decl, book0, db, heights, pending, status, maxDepth>>
=============================================================================
