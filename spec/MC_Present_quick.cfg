\* Present.tla: 170 one-day histories x 3 templates x colour x shorten x 3 totals modes
CONSTANTS
  DaySeqs <- DaySeqsQuick
  Lens <- LensMC
  Templates <- AllTemplates
  Dump = FALSE
SPECIFICATION Spec
INVARIANTS OutIsConcatenation SameRecords Interleaved StripIsPlain ColourBySign CutOnlyWhenTooLong
PROPERTIES AppendOnly StepIsRenderDay Ends
