\* every first day of <= 4 entries over 3 foods x 5 quantities (54241) x {no second day, 2 second days}
CONSTANTS
  BookInit <- BookA
  Foods <- FoodsA
  Qtys <- QtysA
  MaxEntries = 4
  Day2Set <- Day2B
  Element = 5
  Dump = TRUE
INIT Init
NEXT Next
INVARIANTS RegisterExact Agree_TotalsVsRegister Agree_SingleVsTotals Agree_QuantityVsCsvLog Agree_Unresolved Agree_ByFood PeriodAdditive CsvRows_Log DumpInv
PROPERTY DayOutputLocal
