\* C11 quick (a): all books of 3 recipes x <= 2 ingredients over 4 names, limits 1..4, every order
CONSTANTS
  Recipes = {1, 2, 3}
  Leaves = {4}
  MaxIngr = 2
  Depths = {1, 2, 3, 4}
  Impl = "repaired"
  CoefTable <- CoefPrimes
  Dump = TRUE
INIT Init
NEXT Next
INVARIANTS DepthErrorIffHeight ResolvedIsSumOfProducts KeysStable DumpInv
CHECK_DEADLOCK FALSE
