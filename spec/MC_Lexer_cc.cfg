\* a configured comment character (parser.Config.CommentChar = ';'): every line of length <= 5 over 8 symbols; table dumped for replay
CONSTANTS
  Alphabet <- AlphaCC
  MaxLen = 5
  CC = ";"
  Dump = TRUE
INIT Init
NEXT Next
INVARIANTS OrphanSilent NameShapeCC DumpInv
CHECK_DEADLOCK FALSE
