------------------------------- MODULE MC_Walk -------------------------------
EXTENDS Walk
DaysB == {4, 5, 6, 27, 28, 29, 33, 34, 35, 36}
LogB == { <<35, 4, 28, 5, 36, 34, 6, 29, 27, 33, 35, 5>> }      \* every day of DaysB, unordered, two repeated
AllBounds == {"none", "date", "today", "yesterday", "last7", "last30"}
FiveZones == {-720, -480, 0, 540, 840}
HalfHourZones == {z * 30 : z \in -24..28}
=============================================================================
