------------------------------- MODULE Parser -------------------------------
(***************************************************************************)
(* parser.ParseStreamCallback as a line-at-a-time machine                  *)
(* (parser/parser.go:80-158).  The input is a sequence of abstract lines   *)
(* (what Lexer.tla classifies a physical line as, with token ids as        *)
(* payload); one action per scanned line, one per flush of a record        *)
(* through the callback, one per way the scan can end.                     *)
(*                                                                         *)
(* The callback's answers are a policy:                                    *)
(*   "continue"        never stops (lint, the fuzz target)                 *)
(*   "stopOnError"     returns (true, err) on an error event (all commands)*)
(*   <<"stopAtNode",k>> additionally returns (true, cbErr) on the k-th     *)
(*                     record (a date that does not parse, a failing       *)
(*                     Process)                                            *)
(* The reader may fail: before line j (a clean read error, or a line       *)
(* longer than the scanner's buffer), or inside line j - bufio.Scanner     *)
(* then delivers the partial line as a last token, which can classify as   *)
(* anything, before Scan returns false.                                    *)
(*                                                                         *)
(* Impl = "pinned":   Scanner.Err() is never consulted - a failed read is  *)
(*                    end of file (action SilentTruncate);                 *)
(* Impl = "repaired": the scanner error is returned (ReturnScanError).     *)
(***************************************************************************)
EXTENDS Integers, Sequences, FiniteSets, TLC, Json

CONSTANTS MaxLines,   \* files of 0..MaxLines lines
          Kinds,      \* subset of the line kinds below that files are made of
          Policies,   \* callback policies explored
          Faults,     \* TRUE: explore reader failures
          Impl,
          Dump

Heads == {1, 2}
NameIds == {1, 2}
ValIds == {1, 2}

AllLines ==
  [k : {"blank", "comment"}] \cup [k : {"head"}, h : Heads] \cup [k : {"note"}, t : {1}]
  \cup [k : {"entry"}, n : NameIds, v : ValIds]
  \cup [k : {"badsyntax", "badnumber"}, t : {1}]

LineSet == {ln \in AllLines : ln.k \in Kinds}

\* what a truncated line can classify as (any kind: cutting "  abc: 12" after "1" is a valid entry)
PartialSet == LineSet

R(x) == [t |-> x]
NoNode == [header |-> 0, elements |-> <<>>, notes |-> <<>>]

VARIABLES lines,   \* the file
          i,       \* lines consumed so far
          node,    \* record being assembled (NoNode = none)
          cb,      \* callback events delivered so far
          nodes,   \* number of node events delivered (for stopAtNode)
          ret,     \* "none" while scanning, then "nil" | "cbErr" | "ioErr" | the first error event
          policy,
          fault,   \* [at |-> 0] = none; [at |-> j, mid |-> BOOLEAN, part |-> line] = the read of line j fails
          failed   \* the reader has failed

vars == <<lines, i, node, cb, nodes, ret, policy, fault, failed>>

Files == UNION {[1..k -> LineSet] : k \in 0..MaxLines}

FaultsOf(f) ==
  IF ~Faults THEN {[at |-> 0]}
  ELSE {[at |-> 0]}
       \cup {[at |-> j, mid |-> FALSE, part |-> [k |-> "blank"]] : j \in 1..(Len(f) + 1)}
       \cup {[at |-> j, mid |-> TRUE, part |-> p] : j \in 1..Len(f), p \in PartialSet}

Init ==
  /\ lines \in Files
  /\ policy \in Policies
  /\ fault \in FaultsOf(lines)
  /\ i = 0 /\ node = NoNode /\ cb = <<>> /\ nodes = 0 /\ ret = R("none") /\ failed = FALSE

NodeEvent(n) == [t |-> "node", header |-> n.header, elements |-> n.elements, notes |-> n.notes]
ErrEvent(kind, lineNo) == [t |-> "err", kind |-> kind, line |-> lineNo]

StopsAtNode(k) == policy.p = "stopAtNode" /\ policy.k = k
StopsOnError == policy.p # "continue"

\* effect of one scanned line `ln` with physical number `no`
Process(ln, no) ==
  CASE ln.k \in {"blank", "comment"} ->
         UNCHANGED <<node, cb, nodes, ret>>
    [] ln.k = "head" ->
         IF node # NoNode
         THEN /\ cb' = Append(cb, NodeEvent(node))
              /\ nodes' = nodes + 1
              /\ IF StopsAtNode(nodes + 1)
                 THEN ret' = R("cbErr") /\ UNCHANGED node
                 ELSE ret' = ret /\ node' = [header |-> ln.h, elements |-> <<>>, notes |-> <<>>]
         ELSE /\ node' = [header |-> ln.h, elements |-> <<>>, notes |-> <<>>]
              /\ UNCHANGED <<cb, nodes, ret>>
    [] ln.k = "note" ->
         /\ node' = IF node = NoNode THEN node ELSE [node EXCEPT !.notes = Append(@, ln.t)]
         /\ UNCHANGED <<cb, nodes, ret>>
    [] ln.k = "entry" ->
         /\ node' = IF node = NoNode THEN node ELSE [node EXCEPT !.elements = Append(@, <<ln.n, ln.v>>)]
         /\ UNCHANGED <<cb, nodes, ret>>
    [] ln.k \in {"badsyntax", "badnumber"} ->
         IF node = NoNode
         THEN UNCHANGED <<node, cb, nodes, ret>>            \* orphan: silently ignored
         ELSE /\ cb' = Append(cb, ErrEvent(ln.k, no))
              /\ ret' = IF StopsOnError THEN ErrEvent(ln.k, no) ELSE ret
              /\ UNCHANGED <<node, nodes>>

\* lineScanner.Scan() returned true with the next complete line
ScanLine ==
  /\ ret.t = "none" /\ ~failed
  /\ i < Len(lines)
  /\ fault.at # i + 1
  /\ Process(lines[i + 1], i + 1)
  /\ i' = i + 1
  /\ UNCHANGED <<lines, policy, fault, failed>>

\* the read fails inside line j: the partial line is delivered as a last token
ScanPartial ==
  /\ ret.t = "none" /\ ~failed
  /\ fault.at = i + 1 /\ fault.mid
  /\ Process(fault.part, i + 1)
  /\ i' = i + 1
  /\ failed' = TRUE
  /\ UNCHANGED <<lines, policy, fault>>

\* the read fails before line j (or line j is longer than the buffer): Scan returns false
ScanFails ==
  /\ ret.t = "none" /\ ~failed
  /\ fault.at = i + 1 /\ ~fault.mid
  /\ failed' = TRUE
  /\ UNCHANGED <<lines, i, node, cb, nodes, ret, policy, fault>>

\* Scan returned false at end of file: push the last record
Flush ==
  IF node # NoNode
  THEN /\ cb' = Append(cb, NodeEvent(node))
       /\ nodes' = nodes + 1
       /\ ret' = IF StopsAtNode(nodes + 1) THEN R("cbErr") ELSE R("nil")
  ELSE /\ ret' = R("nil") /\ UNCHANGED <<cb, nodes>>

Finish ==
  /\ ret.t = "none" /\ ~failed
  /\ i = Len(lines) /\ fault.at # i + 1
  /\ Flush
  /\ UNCHANGED <<lines, i, node, policy, fault, failed>>

\* repaired code: Scanner.Err() is returned, the last record is not pushed
ReturnScanError ==
  /\ Impl = "repaired"
  /\ ret.t = "none" /\ failed
  /\ ret' = R("ioErr")
  /\ UNCHANGED <<lines, i, node, cb, nodes, policy, fault, failed>>

\* pinned code: a failed read is indistinguishable from end of file
SilentTruncate ==
  /\ Impl = "pinned"
  /\ ret.t = "none" /\ failed
  /\ Flush
  /\ UNCHANGED <<lines, i, node, policy, fault, failed>>

Terminated == ret.t # "none" /\ UNCHANGED vars

Next == ScanLine \/ ScanPartial \/ ScanFails \/ Finish \/ ReturnScanError \/ SilentTruncate \/ Terminated

Spec == Init /\ [][Next]_vars /\ WF_vars(ScanLine \/ ScanPartial \/ ScanFails \/ Finish \/ ReturnScanError \/ SilentTruncate)

-----------------------------------------------------------------------------
(* declarative counterparts                                                 *)

HeadIdx(f) == {p \in 1..Len(f) : f[p].k = "head"}
\* the record that starts at heading index p: everything up to the next heading
NextHead(f, p) == LET later == {q \in HeadIdx(f) : q > p} IN
                  IF later = {} THEN Len(f) + 1 ELSE CHOOSE q \in later : \A r \in later : q <= r
Body(f, p) == SubSeq(f, p + 1, NextHead(f, p) - 1)
Entries(b) == LET es == SelectSeq(b, LAMBDA ln : ln.k = "entry") IN [x \in 1..Len(es) |-> <<es[x].n, es[x].v>>]
NotesOf(b) == LET ns == SelectSeq(b, LAMBDA ln : ln.k = "note") IN [x \in 1..Len(ns) |-> ns[x].t]
RecordAt(f, p) == [t |-> "node", header |-> f[p].h, elements |-> Entries(Body(f, p)), notes |-> NotesOf(Body(f, p))]
RECURSIVE RecordsFrom(_, _)
RecordsFrom(f, p) == IF p > Len(f) THEN <<>>
                     ELSE IF f[p].k = "head" THEN <<RecordAt(f, p)>> \o RecordsFrom(f, NextHead(f, p))
                     ELSE RecordsFrom(f, p + 1)
Records(f) == RecordsFrom(f, 1)

\* malformed lines that are inside a record, with their physical line numbers, in file order
InRecord(f, p) == \E q \in HeadIdx(f) : q < p
BadIdx(f) == {p \in 1..Len(f) : f[p].k \in {"badsyntax", "badnumber"} /\ InRecord(f, p)}
RECURSIVE BadFrom(_, _)
BadFrom(f, p) == IF p > Len(f) THEN <<>>
                 ELSE IF p \in BadIdx(f) THEN <<ErrEvent(f[p].k, p)>> \o BadFrom(f, p + 1)
                 ELSE BadFrom(f, p + 1)
Errors(f) == BadFrom(f, 1)

NodeEvents(s) == SelectSeq(s, LAMBDA e : e.t = "node")
ErrEvents(s) == SelectSeq(s, LAMBDA e : e.t = "err")
IsPrefix(a, b) == Len(a) <= Len(b) /\ SubSeq(b, 1, Len(a)) = a

NoFault == fault.at = 0
WellFormed == BadIdx(lines) = {}

-----------------------------------------------------------------------------
(* properties                                                               *)

\* C04: a readable well-formed file parses to exactly its records (the last one included), entries in
\* order, notes kept apart, comments and blank lines invisible
RecordsExact ==
  (ret.t = "nil" /\ NoFault /\ WellFormed) => cb = Records(lines)
LastRecordKept ==
  (ret.t = "nil" /\ NoFault /\ HeadIdx(lines) # {}) =>
      cb # <<>> /\ cb[Len(cb)] = RecordAt(lines, CHOOSE p \in HeadIdx(lines) : \A q \in HeadIdx(lines) : q <= p)
NotesNeverEntries ==
  \A x \in 1..Len(cb) : cb[x].t = "node" =>
      Len(cb[x].elements) + Len(cb[x].notes) <= Len(lines) /\ \A y \in 1..Len(cb[x].notes) : cb[x].notes[y] \in {1}

\* C09: every error event carries the physical 1-based number of its line
LineNumberPhysical ==
  \A x \in 1..Len(cb) : cb[x].t = "err" =>
      /\ cb[x].line \in 1..Len(lines) \cup (IF fault.at > 0 THEN {fault.at} ELSE {})
      /\ (NoFault => lines[cb[x].line].k = cb[x].kind)
\* C09: a command (stops on error) returns the error of the FIRST malformed line
FirstErrorReturned ==
  (NoFault /\ policy.p = "stopOnError" /\ ret.t # "none") =>
      IF Errors(lines) = <<>> THEN ret = R("nil") ELSE ret = Errors(lines)[1]
\* C09: lint (never stops) sees every malformed line once, in file order, and all records
AllErrorsOnceInOrder ==
  (NoFault /\ policy.p = "continue" /\ ret.t # "none") =>
      /\ ret = R("nil") /\ ErrEvents(cb) = Errors(lines) /\ NodeEvents(cb) = Records(lines)
\* before any terminal state the delivered events are a prefix of what a fault-free complete run delivers
EventsArePrefix ==
  NoFault => /\ IsPrefix(NodeEvents(cb), Records(lines))
             /\ IsPrefix(ErrEvents(cb), Errors(lines))

\* C10: a failed read is an error, never a silently shortened result
ScanFailureIsError == (failed /\ ret.t # "none") => ret.t # "nil"
SuccessMeansAllLinesSeen ==
  ret.t = "nil" => /\ i = Len(lines) /\ ~failed
                 /\ NodeEvents(cb) = Records(lines)

\* C08: the machine is total - some step is possible until a result is returned (checked as absence
\* of deadlock: Terminated is the only step of a finished run), and it finishes
Terminates == <>(ret.t # "none")

TypeOK == /\ i \in 0..Len(lines) /\ nodes \in 0..(Len(lines) + 1)
          /\ ret \in [t : {"none", "nil", "cbErr", "ioErr"}] \cup [t : {"err"}, kind : {"badsyntax", "badnumber"}, line : 1..(MaxLines + 1)]

-----------------------------------------------------------------------------
Terminal == ret.t # "none"
DumpInv ==
  (Dump /\ Terminal) =>
    PrintT(ToJson([lines |-> lines, policy |-> policy, fault |-> fault, cb |-> cb, ret |-> ret]))
View == <<lines, i, node, cb, nodes, ret, policy, fault, failed>>
=============================================================================
