\* buffer of 4 bytes, writes of 1..3 bytes, reports <= 9 bytes, sink failing from every offset, both error disciplines of reporters
CONSTANTS
  B = 4
  MaxWrite = 3
  MaxTotal = 9
  Impl = "repaired"
INIT Init
NEXT Next
INVARIANTS SuccessImpliesAllBytesAccepted NoFalseFailure AcceptedBounded
PROPERTY RefinesIface
