-------------------------------- MODULE Walk --------------------------------
(***************************************************************************)
(* Selection of days: options.populateFilter / GetTimeFromString           *)
(* (options.go:141-181), filter.GetIntervalNodeFilter (filter.go) and the  *)
(* interval `summary DATE` builds (summary.go:29-37), applied by           *)
(* WalkNodesInStream to every heading of the log.                          *)
(*                                                                         *)
(* Time is modelled as INSTANTS: integer minutes since an epoch.  A        *)
(* heading or an explicit date parses (time.Parse, no zone in the layout)  *)
(* to UTC midnight of its day: day * 1440.  The process time zone is an    *)
(* offset in minutes; it enters only where the code calls .Local() /       *)
(* t.Location(): the keyword today and summary's day interval.  Zone       *)
(* independence is therefore a theorem checked over all offsets, not an    *)
(* assumption.                                                             *)
(*                                                                         *)
(* A bound is given at the global position, at the sub-command position,   *)
(* or both; Lineage is walked from the root to the leaf, so the innermost  *)
(* one wins, separately for begin and end.                                 *)
(***************************************************************************)
EXTENDS Integers, Sequences, FiniteSets, TLC, Json

CONSTANTS Days,       \* day numbers that can occur as headings / explicit bounds
          MaxLog,     \* headings per log
          Todays,     \* values of --today
          Zones,      \* zone offsets in minutes east of UTC
          BoundKinds, \* subset of {"none","date","today","yesterday","last7","last30"}
          Positions,  \* subset of {"global","sub","both"}
          Kinds,      \* subset of {"period","summary"}
          LogSet,     \* {} = every log over Days up to MaxLog; otherwise exactly these logs
          Dump

VARIABLES log,       \* sequence of day numbers (file order; any order, repeats allowed)
          kind,      \* "period": a command with -b/-e ; "summary": summary DATE
          bG, eG,    \* bounds given at the global position
          bS, eS,    \* bounds given at the sub-command position
          arg,       \* summary's argument (a bound spec)
          today,     \* --today (a day number)
          zone,      \* process zone offset
          selected,  \* indices of the headings that reach Process, in order
          done

vars == <<log, kind, bG, eG, bS, eS, arg, today, zone, selected, done>>

None == [k |-> "none"]
BoundSpecs == {[k |-> x] : x \in BoundKinds \ {"date"}} \cup (IF "date" \in BoundKinds THEN {[k |-> "date", d |-> d] : d \in Days} ELSE {})
Given == BoundSpecs \ {None}

M == 1440
\* GetTimeFromString: [t |-> instant, local |-> the time value carries the Local location]
Resolve(spec) ==
  CASE spec.k = "date"      -> [t |-> spec.d * M, local |-> FALSE]
    [] spec.k = "today"     -> [t |-> today * M, local |-> TRUE]          \* now.Local()
    [] spec.k = "yesterday" -> [t |-> (today - 1) * M, local |-> FALSE]   \* now.AddDate(0, 0, -1)
    [] spec.k = "last7"     -> [t |-> (today - 7) * M, local |-> FALSE]
    [] spec.k = "last30"    -> [t |-> (today - 30) * M, local |-> FALSE]

\* populateFilter: root first, leaf last: the sub-command's value overrides the global one
Effective(g, s) == IF s # None THEN s ELSE g

\* isGoodDate / inInterval on instants
InInterval(t, b, e) == (b = None \/ t >= Resolve(b).t) /\ (e = None \/ t <= Resolve(e).t)

FloorDiv(a, b) == IF a >= 0 THEN a \div b ELSE -((-a + b - 1) \div b)
\* summary: [00:00, 24:00) of the calendar day of the argument, taken in the time value's own location
SummaryInterval(spec) ==
  LET r   == Resolve(spec)
      off == IF r.local THEN zone ELSE 0
      day == FloorDiv(r.t + off, M)             \* t.Year(), t.Month(), t.Day() in that location
      b   == day * M - off                      \* time.Date(y, m, d, 0, 0, 0, 0, loc)
  IN [b |-> b, e |-> b + M - 1]                 \* time.Date(y, m, d, 24, 0, 0, -1, loc)

Keep(i) ==
  LET t == log[i] * M IN
  IF kind = "summary" THEN LET iv == SummaryInterval(arg) IN t >= iv.b /\ t <= iv.e
  ELSE InInterval(t, Effective(bG, bS), Effective(eG, eS))

Logs == UNION {[1..n -> Days] : n \in 0..MaxLog}

PosOK(g, s) ==
  \/ "global" \in Positions /\ s = None
  \/ "sub" \in Positions /\ g = None
  \/ "both" \in Positions /\ g # None /\ s # None /\ g # s

Init ==
  /\ log \in (IF LogSet = {} THEN Logs ELSE LogSet)
  /\ kind \in Kinds
  /\ today \in Todays /\ zone \in Zones
  /\ IF kind = "summary"
     THEN /\ arg \in Given /\ bG = None /\ eG = None /\ bS = None /\ eS = None
     ELSE /\ arg = None
          /\ bG \in BoundSpecs /\ bS \in BoundSpecs /\ PosOK(bG, bS)
          /\ eG \in BoundSpecs /\ eS \in BoundSpecs /\ PosOK(eG, eS)
  /\ selected = <<>> /\ done = FALSE

\* WalkNodesInStream: every heading goes through the filter, the selected ones reach Process in file order
Walk ==
  /\ ~done
  /\ selected' = LET idx == [i \in 1..Len(log) |-> i] IN SelectSeq(idx, LAMBDA i : Keep(i))
  /\ done' = TRUE
  /\ UNCHANGED <<log, kind, bG, eG, bS, eS, arg, today, zone>>

Done == done /\ UNCHANGED vars
Next == Walk \/ Done

-----------------------------------------------------------------------------
(* the statement, in calendar days, with no instants and no zone            *)
DayOf(spec) ==
  CASE spec.k = "date" -> spec.d [] spec.k = "today" -> today [] spec.k = "yesterday" -> today - 1
    [] spec.k = "last7" -> today - 7 [] spec.k = "last30" -> today - 30

SelectedExactly ==
  (done /\ kind = "period") =>
    LET b == Effective(bG, bS) e == Effective(eG, eS) IN
    selected = SelectSeq([i \in 1..Len(log) |-> i],
                         LAMBDA i : (b = None \/ log[i] >= DayOf(b)) /\ (e = None \/ log[i] <= DayOf(e)))
SummarySelectsThatDay ==
  (done /\ kind = "summary") =>
    selected = SelectSeq([i \in 1..Len(log) |-> i], LAMBDA i : log[i] = DayOf(arg))
FileOrderKept == \A x, y \in 1..Len(selected) : x < y => selected[x] < selected[y]

\* stats (stats.go:43-79, stats_reporter.go): numbers of headings, first and last heading in FILE order, and
\* their distances in days from --today (the period options do not apply to stats)
StatsOf == [records |-> Len(log),
            first   |-> IF log = <<>> THEN 0 ELSE log[1],
            last    |-> IF log = <<>> THEN 0 ELSE log[Len(log)],
            firstAgo |-> IF log = <<>> THEN 0 ELSE today - log[1],
            lastAgo  |-> IF log = <<>> THEN 0 ELSE today - log[Len(log)]]

DumpInv ==
  (Dump /\ done) =>
    PrintT(ToJson([log |-> log, kind |-> kind, bG |-> bG, eG |-> eG, bS |-> bS, eS |-> eS, arg |-> arg,
                   today |-> today, zone |-> zone, selected |-> selected, stats |-> StatsOf]))
=============================================================================
