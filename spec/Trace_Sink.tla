----------------------------- MODULE Trace_Sink -----------------------------
(***************************************************************************)
(* Trace validation at the sink interface (the projection IfaceStep of     *)
(* Sink.tla, which TLC shows the buffer machine refines).  Recorded from   *)
(* the real commands writing into a sink that accepts `limit` bytes:       *)
(*   {"ev":"Init","total":L,"limit":k}      L = size of the full report    *)
(*   {"ev":"SinkWrite","n":n,"took":t,"ok":bool}   every Write the sink saw*)
(*   {"ev":"Exit","status":0|1}                                            *)
(***************************************************************************)
EXTENDS Integers, Sequences, TLC, Json, IOUtils

VARIABLES total, limit, accepted, sticky, exit, l
vars == <<total, limit, accepted, sticky, exit, l>>
Trace == ndJsonDeserialize(IOEnv.VERIF_TRACE)

TInit == /\ l = 2 /\ Trace[1].ev = "Init"
         /\ total = Trace[1].total /\ limit = Trace[1].limit
         /\ accepted = 0 /\ sticky = FALSE /\ exit = -1

IsEvent(e) == l <= Len(Trace) /\ Trace[l].ev = e /\ l' = l + 1

TSinkWrite ==
  /\ IsEvent("SinkWrite") /\ exit = -1
  /\ LET r == Trace[l] IN
     /\ r.ok <=> (accepted + r.n <= limit)          \* the sink behaves as configured
     /\ r.ok => r.took = r.n
     /\ accepted' = accepted + r.took
     /\ sticky' = (sticky \/ ~r.ok)
  /\ UNCHANGED <<total, limit, exit>>

TExit ==
  /\ IsEvent("Exit") /\ exit = -1
  /\ exit' = Trace[l].status
  /\ UNCHANGED <<total, limit, accepted, sticky>>

TReset ==
  /\ IsEvent("Init") /\ exit # -1
  /\ total' = Trace[l].total /\ limit' = Trace[l].limit
  /\ accepted' = 0 /\ sticky' = FALSE /\ exit' = -1

TNext == TSinkWrite \/ TExit \/ TReset
TSpec == TInit /\ [][TNext]_vars

\* C17 on every recorded execution
SuccessImpliesAllBytesAccepted == exit = 0 => (~sticky /\ accepted = total)
NoFalseFailure == (exit > 0 /\ limit >= total) => FALSE
AcceptedBounded == accepted <= limit

Rejected == IF TLCGet("stats").diameter = Len(Trace) THEN TRUE
            ELSE PrintT(<<"REJECTED-AT-LINE", TLCGet("stats").diameter + 1>>) /\ FALSE
=============================================================================
