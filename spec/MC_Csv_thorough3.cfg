\* Csv.tla: every record of 3 fields of <= 2 characters over {a , " blank LF e-acute} (79507 files)
CONSTANTS
  Alphabet = {97, 44, 34, 32, 10, 233}
  MaxLen = 2
  NFields = 3
  MaxRecs = 1
SPECIFICATION Spec
INVARIANTS Lossless NeverRejected FoldAgrees
