\* Present.tla: 5461 histories of up to two days x 3 templates x colour x shorten x 3 totals modes
CONSTANTS
  DaySeqs <- DaySeqsThorough
  Lens <- LensMC
  Templates <- AllTemplates
  Dump = FALSE
SPECIFICATION Spec
INVARIANTS OutIsConcatenation SameRecords Interleaved StripIsPlain ColourBySign CutOnlyWhenTooLong
PROPERTIES AppendOnly StepIsRenderDay Ends
