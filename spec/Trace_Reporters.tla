--------------------------- MODULE Trace_Reporters ---------------------------
(***************************************************************************)
(* Trace validation for Reporters.tla.  The harness walks a log with the   *)
(* real WalkNodesInStream and the real reporters (register template,       *)
(* csv log, single element, totals, quantity, unresolved, balance total),  *)
(* flushing after every Process so that each day's chunk is observed:      *)
(*   {"ev":"Init","book":[[food,[[el,amt],..]],..],"log":[{date,es},..]}   *)
(*   {"ev":"Day","date":d,"reg":{foods,totals},"csv":[..],"single":[..]}   *)
(*   {"ev":"Flush","totals":[..],"qty":[..],"unres":[..],"baltotal":n}     *)
(* The book is the one the REAL resolver produced from a random nested     *)
(* recipe book (its correctness is C01's).                                 *)
(***************************************************************************)
EXTENDS Reporters, IOUtils

VARIABLE l
Trace == ndJsonDeserialize(IOEnv.VERIF_TRACE)
tvars == <<vars, l>>

BookOf(pairs) == [r \in {pairs[i][1] : i \in 1..Len(pairs)} |->
                    LET i == CHOOSE j \in 1..Len(pairs) : pairs[j][1] = r IN pairs[i][2]]

Blank ==
  /\ d = 0 /\ reg = <<>> /\ csvlog = <<>> /\ single = <<>> /\ food = <<>>
  /\ totAcc = EmptyAcc /\ qtyAcc = [x \in {} |-> 0] /\ byFood = EmptyAcc /\ unres = {} /\ balTotal = 0 /\ flushed = FALSE

TInit == /\ l = 2 /\ Trace[1].ev = "Init"
         /\ Book = BookOf(Trace[1].book) /\ log = Trace[1].log /\ Blank

IsEvent(e) == l <= Len(Trace) /\ Trace[l].ev = e /\ l' = l + 1

\* a Process step whose chunk is exactly what the real reporters printed for that day
TDay ==
  /\ IsEvent("Day") /\ Process
  /\ LET r == Trace[l] c == reg'[Len(reg')] IN
     /\ c.date = r.date
     /\ c.foods = r.reg.foods
     /\ c.totals = r.reg.totals
     /\ CsvLogRows(log[d + 1]) = r.csv
     /\ SingleRows(log[d + 1]) = r.single

TFlush ==
  /\ IsEvent("Flush") /\ Flush
  /\ LET r == Trace[l] IN
     /\ TotalsReport = r.totals
     /\ QtyRows(FALSE) = r.qty
     /\ UnresRows = r.unres
     /\ balTotal = r.baltotal

TReset ==
  /\ IsEvent("Init") /\ flushed
  /\ Book' = BookOf(Trace[l].book) /\ log' = Trace[l].log
  /\ d' = 0 /\ reg' = <<>> /\ csvlog' = <<>> /\ single' = <<>> /\ food' = <<>>
  /\ totAcc' = EmptyAcc /\ qtyAcc' = [x \in {} |-> 0] /\ byFood' = EmptyAcc /\ unres' = {} /\ balTotal' = 0 /\ flushed' = FALSE

TNext == TDay \/ TFlush \/ TReset
TSpec == TInit /\ [][TNext]_tvars

Rejected == IF TLCGet("stats").diameter = Len(Trace) THEN TRUE
            ELSE PrintT(<<"REJECTED-AT-LINE", TLCGet("stats").diameter + 1>>) /\ FALSE
=============================================================================
