\* C04: every well-formed file of <= 5 lines over the 9 line kinds, callback never stops
CONSTANTS
  MaxLines = 5
  Kinds <- WellFormedKinds
  Policies <- PolNever
  Faults = FALSE
  Impl = "repaired"
  Dump = TRUE
INIT Init
NEXT Next
INVARIANTS TypeOK RecordsExact LastRecordKept NotesNeverEntries EventsArePrefix SuccessMeansAllLinesSeen DumpInv
