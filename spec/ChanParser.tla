----------------------------- MODULE ChanParser -----------------------------
(***************************************************************************)
(* Parser.ParseStream / Parser.ParseFile (parser/parser.go:57-65,161-173): *)
(* the callback parser adapted to three UNBUFFERED channels Nodes, Errors, *)
(* Done.  Two processes: the producer goroutine and the consumer's receive *)
(* loop.  A send on an unbuffered channel is a rendezvous: the producer     *)
(* posts an offer and blocks until the consumer takes it - one action per  *)
(* step of either side, so TLC explores every interleaving.                *)
(*                                                                         *)
(* What the callback parser does is summarised (Parser.tla decides it) by  *)
(*   items : the callback events up to and including the first error       *)
(*           (the adapter's callback stops at the first error), and        *)
(*   final : "nil"  - ParseStreamCallback returned nil,                    *)
(*           "cb"   - it returned the error the callback was given,        *)
(*           "io"   - it returned an error the callback never saw (failed  *)
(*                    read): sent once afterwards.                         *)
(* entry = "stream" | "fileOk" | "fileOpenFails" (ParseFile on a path that *)
(* cannot be opened sends the error and returns WITHOUT Done).             *)
(*                                                                         *)
(* Impl = "pinned": the returned error is sent again although the callback *)
(* already delivered it (action ResendErr).                                *)
(***************************************************************************)
EXTENDS Integers, Sequences, FiniteSets, TLC, Json

CONSTANTS MaxItems, Impl, Dump

VARIABLES items, final, entry, policy,   \* the scenario (never changes)
          k,        \* producer: next item
          ppc,      \* producer pc
          offer,    \* <<>> or <<channel, payload>>: a send waiting for its receiver
          cpc,      \* consumer pc: "select" | "returned"
          seen      \* what the consumer received, in order

vars == <<items, final, entry, policy, k, ppc, offer, cpc, seen>>
scenario == <<items, final, entry, policy>>

NodeSeqs == UNION {[1..n -> {"node"}] : n \in 0..MaxItems}
Scenarios ==
  {<<s, "nil">> : s \in NodeSeqs} \cup {<<s, "io">> : s \in NodeSeqs}
  \cup {<<Append(s, "err"), "cb">> : s \in {t \in NodeSeqs : Len(t) < MaxItems}}

Init ==
  /\ \E sc \in Scenarios : items = sc[1] /\ final = sc[2]
  /\ entry \in {"stream", "fileOk", "fileOpenFails"}
  /\ entry = "fileOpenFails" => items = <<>> /\ final = "io"
  /\ policy \in {"stop", "drain"}
  /\ k = 1 /\ offer = <<>> /\ cpc = "select" /\ seen = <<>>
  /\ ppc = IF entry = "fileOpenFails" THEN "openFailed" ELSE "loop"

Same == UNCHANGED scenario

\* ---------------- producer ----------------
\* the callback is invoked for item k: it sends the node or the error
PSendItem ==
  /\ ppc = "loop" /\ offer = <<>> /\ k <= Len(items)
  /\ offer' = IF items[k] = "node" THEN <<"Nodes", k>> ELSE <<"Errors", 0>>
  /\ ppc' = IF items[k] = "node" THEN "sentNode" ELSE "sentErr"
  /\ UNCHANGED <<k, cpc, seen>> /\ Same

\* the send completed (the consumer took the offer)
PNodeTaken ==
  /\ ppc = "sentNode" /\ offer = <<>>
  /\ k' = k + 1 /\ ppc' = "loop"
  /\ UNCHANGED <<offer, cpc, seen>> /\ Same

\* after the callback's error send: ParseStreamCallback returns that error
PErrTaken ==
  /\ ppc = "sentErr" /\ offer = <<>>
  /\ ppc' = IF Impl = "pinned" THEN "resend" ELSE "done"
  /\ UNCHANGED <<k, offer, cpc, seen>> /\ Same

\* pinned code only: `if err != nil { p.Errors <- err }` sends the same error again
ResendErr ==
  /\ ppc = "resend" /\ offer = <<>>
  /\ offer' = <<"Errors", 0>> /\ ppc' = "resent"
  /\ UNCHANGED <<k, cpc, seen>> /\ Same
PResendTaken ==
  /\ ppc = "resent" /\ offer = <<>> /\ ppc' = "done"
  /\ UNCHANGED <<k, offer, cpc, seen>> /\ Same

\* all items delivered: the callback parser returns nil, or an error the callback never saw
PReturn ==
  /\ ppc = "loop" /\ offer = <<>> /\ k > Len(items)
  /\ IF final = "io" THEN offer' = <<"Errors", 0>> /\ ppc' = "sentIo"
     ELSE UNCHANGED offer /\ ppc' = "done"
  /\ UNCHANGED <<k, cpc, seen>> /\ Same
PIoTaken ==
  /\ ppc = "sentIo" /\ offer = <<>> /\ ppc' = "done"
  /\ UNCHANGED <<k, offer, cpc, seen>> /\ Same

\* p.Done <- true
PSendDone ==
  /\ ppc = "done" /\ offer = <<>>
  /\ offer' = <<"Done", 0>> /\ ppc' = "sentDone"
  /\ UNCHANGED <<k, cpc, seen>> /\ Same
PDoneTaken ==
  /\ ppc = "sentDone" /\ offer = <<>> /\ ppc' = "exited"
  /\ UNCHANGED <<k, offer, cpc, seen>> /\ Same

\* ParseFile: os.Open failed: send the error and return (no Done)
POpenFailed ==
  /\ ppc = "openFailed" /\ offer = <<>>
  /\ offer' = <<"Errors", 0>> /\ ppc' = "sentOpenErr"
  /\ UNCHANGED <<k, cpc, seen>> /\ Same
POpenErrTaken ==
  /\ ppc = "sentOpenErr" /\ offer = <<>> /\ ppc' = "exited"
  /\ UNCHANGED <<k, offer, cpc, seen>> /\ Same

Producer == PSendItem \/ PNodeTaken \/ PErrTaken \/ ResendErr \/ PResendTaken \/ PReturn \/ PIoTaken
            \/ PSendDone \/ PDoneTaken \/ POpenFailed \/ POpenErrTaken

\* ---------------- consumer ----------------
\* the documented receive loop (example_test.go): select over the three channels
Recv ==
  /\ cpc = "select" /\ offer # <<>>
  /\ seen' = Append(seen, offer)
  /\ offer' = <<>>
  /\ cpc' = IF offer[1] = "Done" \/ (offer[1] = "Errors" /\ policy = "stop") THEN "returned" ELSE "select"
  /\ UNCHANGED <<k, ppc>> /\ Same

Next == Producer \/ Recv
Spec == Init /\ [][Next]_vars /\ WF_vars(Producer) /\ WF_vars(Recv)

-----------------------------------------------------------------------------
SeenOn(ch) == SelectSeq(seen, LAMBDA o : o[1] = ch)
NodesOf(s) == SelectSeq(s, LAMBDA x : x = "node")

\* the records the consumer saw are, in order, the records the callback parser reports before its first error
SeenIsPrefixOfRecords ==
  LET ns == SeenOn("Nodes") IN
  /\ Len(ns) <= Len(NodesOf(items))
  /\ \A x \in 1..Len(ns) : ns[x][2] = x
\* each error is seen at most once
EachErrorOnce == Len(SeenOn("Errors")) <= 1
\* nothing follows Done, and Done is seen at most once
DoneIsLast == \A x \in 1..Len(seen) : seen[x][1] = "Done" => x = Len(seen)

HasError == final \in {"cb", "io"}
\* when the consumer's loop has returned it has seen exactly: all records, then the error or completion
ConsumerResult ==
  cpc = "returned" =>
     /\ Len(SeenOn("Nodes")) = Len(NodesOf(items))
     /\ IF HasError THEN Len(SeenOn("Errors")) = 1 ELSE Len(SeenOn("Errors")) = 0
     /\ (policy = "stop" /\ HasError) => seen[Len(seen)][1] = "Errors"
     /\ (~HasError \/ policy = "drain") => seen[Len(seen)][1] = "Done"

\* liveness
StopConsumerTerminates == (policy = "stop") => <>(cpc = "returned")
DrainConsumerTerminates == (policy = "drain" /\ entry # "fileOpenFails") => <>(cpc = "returned")
ProducerExitsAfterDrain == (policy = "drain") => <>(ppc = "exited")
\* observation, not a property of C18: after a consumer that stops at the first error the producer
\* of the repaired code stays blocked on `Done <- true` (nobody receives): ppc = "sentDone" forever

Terminal == (cpc = "returned" /\ (ppc = "exited" \/ offer # <<>>)) \/ (ppc = "exited" /\ entry = "fileOpenFails" /\ offer = <<>>)
DumpInv ==
  (Dump /\ ~ENABLED Next) =>
     PrintT(ToJson([items |-> items, final |-> final, entry |-> entry, policy |-> policy, seen |-> seen, ppc |-> ppc, cpc |-> cpc]))
=============================================================================
