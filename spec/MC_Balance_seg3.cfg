\* every log of <= 3 entries over the 39 names of depth <= 3 on 3 segments (60880 logs), 2 days, 3 display modes, all-foods and single-element trees
CONSTANTS
  Segs = {1, 2, 3}
  MaxDepth = 3
  MaxLog = 3
  Amts <- AmtsA
  XName <- XNameA
  XBook <- XBookB
  Impl = "repaired"
  Dump = TRUE
INIT Init
NEXT Next
INVARIANTS EachPathOnce SiblingsSorted ParentIsOwnPlusChildren GrandTotalIsTopLevelSum ModesAgreeOnLeaves NoBranchDropped DumpInv
