\* Csv.tla: files of 1 or 2 records of 2 fields of <= 1 character over {a , " LF} (650 files): record boundaries
CONSTANTS
  Alphabet = {97, 44, 34, 10}
  MaxLen = 1
  NFields = 2
  MaxRecs = 2
SPECIFICATION Spec
INVARIANTS Lossless NeverRejected FoldAgrees
PROPERTY Ends
