--------------------------------- MODULE Csv ---------------------------------
(***************************************************************************)
(* The byte level of the CSV exports (C13).  Characters are code points.   *)
(*                                                                         *)
(* Writer: encoding/csv.Writer as the exports configure it                 *)
(* (csv_reporter.go / csv_database_reporter.go: Comma ',', UseCRLF false): *)
(* a field is quoted iff it holds a comma, a quote, CR or LF, or begins    *)
(* with a blank; inside quotes a quote is doubled; fields are joined by    *)
(* commas and the record ends with LF.                                     *)
(*                                                                         *)
(* Reader: the RFC 4180 grammar as an automaton, independent of the        *)
(* writer (escaped / non-escaped fields, 2DQUOTE, a bare quote in a        *)
(* non-escaped field or anything but , CR LF after a closing quote is an   *)
(* error).  Line ends: CRLF (RFC) or LF (what the tool writes).            *)
(*                                                                         *)
(* Actions: Write (a whole record, like Writer.Write), ReadChar (one       *)
(* automaton step), Eof.  TLC checks Lossless for every file of small      *)
(* records over an alphabet that has every special character; the real     *)
(* exports are bound by Trace_Csv.tla, which runs this automaton over the  *)
(* bytes the program printed.                                              *)
(***************************************************************************)
EXTENDS Integers, Sequences, FiniteSets, TLC

CONSTANTS Alphabet,   \* code points fields are made of
          MaxLen,     \* longest field
          NFields,    \* fields per record
          MaxRecs     \* records per file

Comma == 44
Quote == 34
LF    == 10
CR    == 13
Blanks == {32, 9}

VARIABLES file,    \* the records to export
          bytes,   \* what the writer produced so far
          w,       \* records written
          pos,     \* bytes consumed by the reader
          rd       \* reader automaton: [st, cur, row, rows]

vars == <<file, bytes, w, pos, rd>>

RECURSIVE Flatten(_)
Flatten(ss) == IF ss = <<>> THEN <<>> ELSE Head(ss) \o Flatten(Tail(ss))

-----------------------------------------------------------------------------
(* writer *)
NeedsQuotes(f) == f # <<>> /\ ((\E k \in 1..Len(f) : f[k] \in {Comma, Quote, LF, CR}) \/ f[1] \in Blanks)
EncodeField(f) ==
  IF NeedsQuotes(f)
  THEN <<Quote>> \o Flatten([k \in 1..Len(f) |-> IF f[k] = Quote THEN <<Quote, Quote>> ELSE <<f[k]>>]) \o <<Quote>>
  ELSE f
EncodeRecord(r) == Flatten([k \in 1..Len(r) |-> IF k = 1 THEN EncodeField(r[k]) ELSE <<Comma>> \o EncodeField(r[k])]) \o <<LF>>

-----------------------------------------------------------------------------
(* reader *)
Start == [st |-> "start", cur |-> <<>>, row |-> <<>>, rows |-> <<>>]
EndField(S)  == [S EXCEPT !.st = "start", !.row = Append(S.row, S.cur), !.cur = <<>>]
EndRecord(S) == [S EXCEPT !.st = "start", !.rows = Append(S.rows, Append(S.row, S.cur)), !.row = <<>>, !.cur = <<>>]
Err(S)       == [S EXCEPT !.st = "err"]

Step(S, c) ==
  CASE S.st = "start" ->
         IF c = Quote THEN [S EXCEPT !.st = "quoted"]
         ELSE IF c = Comma THEN EndField(S)
         ELSE IF c = LF THEN EndRecord(S)
         ELSE IF c = CR THEN [S EXCEPT !.st = "cr"]
         ELSE [S EXCEPT !.st = "plain", !.cur = <<c>>]
    [] S.st = "plain" ->
         IF c = Comma THEN EndField(S)
         ELSE IF c = LF THEN EndRecord(S)
         ELSE IF c = CR THEN [S EXCEPT !.st = "cr"]
         ELSE IF c = Quote THEN Err(S)                       \* bare quote in a non-escaped field
         ELSE [S EXCEPT !.cur = Append(@, c)]
    [] S.st = "quoted" ->
         IF c = Quote THEN [S EXCEPT !.st = "qq"] ELSE [S EXCEPT !.cur = Append(@, c)]
    [] S.st = "qq" ->                                        \* a quote inside an escaped field
         IF c = Quote THEN [S EXCEPT !.st = "quoted", !.cur = Append(@, Quote)]
         ELSE IF c = Comma THEN EndField(S)
         ELSE IF c = LF THEN EndRecord(S)
         ELSE IF c = CR THEN [S EXCEPT !.st = "cr"]
         ELSE Err(S)                                         \* text after the closing quote
    [] S.st = "cr" -> IF c = LF THEN EndRecord(S) ELSE Err(S)
    [] S.st = "err" -> S

\* end of input: a last record without a line break is complete; an open quote or a lone CR is an error
AtEof(S) ==
  CASE S.st \in {"plain", "qq"} -> EndRecord(S)
    [] S.st = "start" -> IF S.row # <<>> THEN EndRecord(S) ELSE S
    [] S.st \in {"quoted", "cr"} -> Err(S)
    [] S.st = "err" -> S

RECURSIVE Run(_, _, _)
Run(S, b, k) == IF k > Len(b) THEN AtEof(S) ELSE Run(Step(S, b[k]), b, k + 1)
Parse(b) == Run(Start, b, 1)

-----------------------------------------------------------------------------
Fields == UNION {[1..n -> Alphabet] : n \in 0..MaxLen}
Records == [1..NFields -> Fields]

Init ==
  /\ file \in UNION {[1..n -> Records] : n \in 1..MaxRecs}
  /\ bytes = <<>> /\ w = 0 /\ pos = 0 /\ rd = Start

Write ==
  /\ w < Len(file)
  /\ bytes' = bytes \o EncodeRecord(file[w + 1]) /\ w' = w + 1
  /\ UNCHANGED <<file, pos, rd>>

ReadChar ==
  /\ w = Len(file) /\ pos < Len(bytes) /\ rd.st # "done"
  /\ rd' = Step(rd, bytes[pos + 1]) /\ pos' = pos + 1
  /\ UNCHANGED <<file, bytes, w>>

Eof ==
  /\ w = Len(file) /\ pos = Len(bytes) /\ rd.st \notin {"done", "err"}
  /\ rd' = [AtEof(rd) EXCEPT !.st = IF AtEof(rd).st = "err" THEN "err" ELSE "done"]
  /\ UNCHANGED <<file, bytes, w, pos>>

Terminated == rd.st \in {"done", "err"} /\ pos = Len(bytes) /\ UNCHANGED vars
Next == Write \/ ReadChar \/ Eof \/ Terminated
Spec == Init /\ [][Next]_vars /\ WF_vars(Next)

-----------------------------------------------------------------------------
(* C13 *)
\* the export reads back to exactly the records written: nothing lost, nothing split, no error
Lossless == (rd.st = "done") => rd.rows = file
NeverRejected == rd.st # "err"
\* the step-by-step automaton and the one-shot fold agree (Trace_Csv uses the fold)
FoldAgrees == (rd.st = "done") => LET p == Parse(bytes) IN p.rows = rd.rows /\ p.st # "err"
Ends == <>(rd.st = "done")

\* shapes the exports promise, used on recorded bytes
Digit(c) == c >= 48 /\ c <= 57
IsIsoDate(f) == Len(f) = 10 /\ f[5] = 45 /\ f[8] = 45 /\ \A k \in {1, 2, 3, 4, 6, 7, 9, 10} : Digit(f[k])
\* -?digits.digits{dec}
IsDecimal(f, dec) ==
  LET g == IF f # <<>> /\ f[1] = 45 THEN Tail(f) ELSE f IN
  /\ Len(g) >= dec + 2 /\ g[Len(g) - dec] = 46
  /\ \A k \in 1..Len(g) : k # Len(g) - dec => Digit(g[k])
\* lexicographic order of code-point sequences (= byte order of the UTF-8 strings)
RECURSIVE SeqLeq(_, _)
SeqLeq(a, b) == IF a = <<>> THEN TRUE ELSE IF b = <<>> THEN FALSE
                ELSE IF Head(a) < Head(b) THEN TRUE ELSE IF Head(a) > Head(b) THEN FALSE ELSE SeqLeq(Tail(a), Tail(b))
=============================================================================
