------------------------------ MODULE Trace_Csv ------------------------------
(***************************************************************************)
(* Trace validation for Csv.tla: the bytes a real CSV export printed       *)
(*   {"ev":"Init","kind":"log|database|resolved","dec":3|2,"raw":[..]}     *)
(*   {"ev":"Rows","want":[[[field 1],[field 2]],..]}                       *)
(* are run through the RFC 4180 automaton of Csv.tla (Parse).  Accepted    *)
(* iff they are valid, read back to exactly the wanted rows (first two     *)
(* fields equal; the third a decimal of the promised fixed precision - its *)
(* value is compared numerically by the harness), log dates are ISO and    *)
(* the resolved book is sorted by recipe then element.                     *)
(***************************************************************************)
EXTENDS Csv, Json, IOUtils

VARIABLES l, kind, dec
Trace == ndJsonDeserialize(IOEnv.VERIF_TRACE)
tvars == <<vars, l, kind, dec>>

TInit == /\ l = 2 /\ Trace[1].ev = "Init"
         /\ kind = Trace[1].kind /\ dec = Trace[1].dec /\ bytes = Trace[1].raw
         /\ file = <<>> /\ w = 0 /\ pos = 0 /\ rd = Start

IsEvent(e) == l <= Len(Trace) /\ Trace[l].ev = e /\ l' = l + 1

RowLeq(a, b) == IF a[1] = b[1] THEN SeqLeq(a[2], b[2]) ELSE SeqLeq(a[1], b[1])

TRows ==
  /\ IsEvent("Rows") /\ pos = 0
  /\ rd' = Parse(bytes) /\ pos' = Len(bytes)
  /\ LET want == Trace[l].want rows == rd'.rows IN
     /\ rd'.st # "err"
     /\ Len(rows) = Len(want)
     /\ \A k \in 1..Len(rows) :
          /\ Len(rows[k]) = 3 /\ rows[k][1] = want[k][1] /\ rows[k][2] = want[k][2]
          /\ IsDecimal(rows[k][3], dec)
          /\ kind = "log" => IsIsoDate(rows[k][1])
     /\ kind = "resolved" => \A k \in 1..(Len(rows) - 1) : RowLeq(rows[k], rows[k + 1]) /\ <<rows[k][1], rows[k][2]>> # <<rows[k + 1][1], rows[k + 1][2]>>
  /\ UNCHANGED <<file, bytes, w, kind, dec>>

TReset == /\ IsEvent("Init") /\ pos = Len(bytes) /\ rd.st # "err"
          /\ kind' = Trace[l].kind /\ dec' = Trace[l].dec /\ bytes' = Trace[l].raw
          /\ file' = <<>> /\ w' = 0 /\ pos' = 0 /\ rd' = Start

TNext == TRows \/ TReset
TSpec == TInit /\ [][TNext]_tvars

Rejected == IF TLCGet("stats").diameter = Len(Trace) THEN TRUE
            ELSE PrintT(<<"REJECTED-AT-LINE", TLCGet("stats").diameter + 1>>) /\ FALSE
=============================================================================
