---------------------------- MODULE Determinism ----------------------------
(***************************************************************************)
(* Every place where a command ranges over a Go map on the way to its      *)
(* output.  The runtime picks the iteration order: a permutation `perm` of *)
(* the keys, chosen nondeterministically (one behaviour per order).  What  *)
(* the site does with the rows it collects in that order decides whether   *)
(* the order reaches the output:                                           *)
(*                                                                         *)
(*   "unsorted"        rows are printed as collected                       *)
(*                     (pinned: report unresolved)                         *)
(*   "sortKey"         keys are collected, sorted, then used               *)
(*                     (accumulator totals, TreeNode.Keys, csv             *)
(*                     database-resolved, reg -s X -g; repaired: report    *)
(*                     unresolved)                                         *)
(*   "stableByValue"   rows collected in map order, sort.SliceStable by    *)
(*                     value only (pinned: report quantity, report         *)
(*                     element-total) - ties keep the map order            *)
(*   "keyThenStable"   rows put in key order first, then the stable sort   *)
(*                     by value (repaired quantity / element-total)        *)
(*                                                                         *)
(* (The resolver's outer `range db` is Resolver.tla's Visit(n): there the   *)
(* order reaches the ERROR unless heights are kept, see OrderIndependent.)  *)
(***************************************************************************)
EXTENDS Integers, Sequences, FiniteSets, TLC, SequencesExt

CONSTANTS Keys,      \* key universe (integers ordered like the names)
          Vals,      \* values (ties wanted)
          Sites      \* the site kinds in force (which implementation is modelled)

VARIABLES keys, vals, perm, site, desc, out, pc
vars == <<keys, vals, perm, site, desc, out, pc>>

Perms(S) == {p \in [1..Cardinality(S) -> S] : \A i, j \in 1..Cardinality(S) : i # j => p[i] # p[j]}

Init ==
  /\ keys \in SUBSET Keys
  /\ vals \in [keys -> Vals]
  /\ perm \in Perms(keys)          \* the order the runtime happens to produce
  /\ site \in Sites
  /\ desc \in BOOLEAN
  /\ out = <<>> /\ pc = "range"

Less(a, b) == IF desc THEN vals[a] > vals[b] ELSE vals[a] < vals[b]
RECURSIVE InsertStable(_, _, _), StableSort(_)
InsertStable(sorted, x, i) ==
  IF i > Len(sorted) THEN Append(sorted, x)
  ELSE IF Less(x, sorted[i]) THEN SubSeq(sorted, 1, i - 1) \o <<x>> \o SubSeq(sorted, i, Len(sorted))
  ELSE InsertStable(sorted, x, i + 1)
StableSort(s) == IF s = <<>> THEN <<>> ELSE InsertStable(StableSort(SubSeq(s, 1, Len(s) - 1)), s[Len(s)], 1)
ByKey(s) == SortSeq(s, LAMBDA a, b : a < b)

\* the site ranges over the map and produces its rows
RangeMap ==
  /\ pc = "range"
  /\ out' = CASE site = "unsorted"      -> perm
              [] site = "sortKey"       -> ByKey(perm)
              [] site = "stableByValue" -> StableSort(perm)
              [] site = "keyThenStable" -> StableSort(ByKey(perm))
  /\ pc' = "done"
  /\ UNCHANGED <<keys, vals, perm, site, desc>>
Done == pc = "done" /\ UNCHANGED vars
Next == RangeMap \/ Done

\* C05: the output is a function of the input (keys, values, flags) - whatever order the runtime picked.
\* F is that function: the unique order each repaired site produces.
F == CASE site \in {"unsorted", "sortKey"} -> ByKey(SetToSeq(keys))
       [] OTHER -> StableSort(ByKey(SetToSeq(keys)))
Deterministic == pc = "done" => out = F
=============================================================================
