CONSTANTS
  Days = {}
  MaxLog = 0
  Todays = {}
  Zones = {}
  BoundKinds = {}
  Positions = {}
  Kinds = {}
  LogSet = {}
  Dump = FALSE
INIT TInit
NEXT TNext
INVARIANTS SelectedExactly SummarySelectsThatDay FileOrderKept
POSTCONDITION Rejected
CHECK_DEADLOCK FALSE
