CONSTANTS
  MaxItems = 2
  Impl = "repaired"
  Dump = FALSE
INIT TInit
NEXT TNext
CONSTRAINT Mark
INVARIANTS SeenIsPrefixOfRecords EachErrorOnce DoneIsLast ConsumerResult
POSTCONDITION Rejected
CHECK_DEADLOCK FALSE
