\* liveness: resolution terminates for every book (cycles included) under weak fairness; no constraint
CONSTANTS
  Recipes = {1, 2, 3}
  Leaves = {4}
  MaxIngr = 2
  Depths = {1, 3}
  Impl = "repaired"
  CoefTable <- CoefPrimes
  Dump = FALSE
SPECIFICATION Spec
PROPERTY Terminates
CHECK_DEADLOCK FALSE
