\* C10: every file of <= 4 lines over the 11 kinds x the read failing before / inside every line x 2 policies
CONSTANTS
  MaxLines = 4
  Kinds <- AllKinds
  Policies <- PolCmd
  Faults = TRUE
  Impl = "repaired"
  Dump = TRUE
INIT Init
NEXT Next
INVARIANTS TypeOK ScanFailureIsError SuccessMeansAllLinesSeen LineNumberPhysical DumpInv
