\* selection: every log of <= 3 headings (run under 4 other date layouts) over a 6-day window (any order, repeats) x every begin/end pair (absent or a day of the window)
CONSTANTS
  Days = {1, 2, 3, 4, 5, 6}
  MaxLog = 3
  Todays = {4}
  Zones = {0}
  BoundKinds = {"none", "date"}
  Positions = {"global"}
  Kinds = {"period"}
  LogSet = {}
  Dump = TRUE
INIT Init
NEXT Next
INVARIANTS SelectedExactly SummarySelectsThatDay FileOrderKept DumpInv
