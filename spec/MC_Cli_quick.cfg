\* every command shape x every (book, log) problem placement over files of <= 3 records x sink ok/failing
CONSTANTS
  Cmds <- AllCmds
  MaxRecs = 3
  Impl = "repaired"
  Dump = TRUE
INIT Init
NEXT Next
INVARIANTS NoPanic MalformedFailsEveryCommand UnreadableFailsEveryCommand LostOutputFails CleanRunSucceeds DumpInv
