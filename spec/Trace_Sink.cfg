INIT TInit
NEXT TNext
INVARIANTS SuccessImpliesAllBytesAccepted NoFalseFailure AcceptedBounded
POSTCONDITION Rejected
CHECK_DEADLOCK FALSE
