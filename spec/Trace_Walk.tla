------------------------------ MODULE Trace_Walk ------------------------------
(***************************************************************************)
(* Trace validation for Walk.tla beyond the exhaustive bound: random logs  *)
(* of 5..40 headings over a 70-day window, random bounds at random         *)
(* positions, random --today and zone offset (multiples of 15 minutes):    *)
(*   {"ev":"Init","log":[..],"kind":..,"bG":..,"eG":..,"bS":..,"eS":..,    *)
(*    "arg":..,"today":d,"zone":minutes}                                   *)
(*   {"ev":"Walk","selected":[index,..]}                                   *)
(* selected = the headings the real commands showed.  Accepted iff it is   *)
(* the selection the Walk action computes.                                 *)
(***************************************************************************)
EXTENDS Walk, IOUtils

VARIABLE l
Trace == ndJsonDeserialize(IOEnv.VERIF_TRACE)
tvars == <<vars, l>>

Load(r) == /\ log' = r.log /\ kind' = r.kind /\ bG' = r.bG /\ eG' = r.eG /\ bS' = r.bS /\ eS' = r.eS /\ arg' = r.arg
           /\ today' = r.today /\ zone' = r.zone /\ selected' = <<>> /\ done' = FALSE

TInit == /\ l = 2 /\ Trace[1].ev = "Init"
         /\ LET r == Trace[1] IN
            /\ log = r.log /\ kind = r.kind /\ bG = r.bG /\ eG = r.eG /\ bS = r.bS /\ eS = r.eS /\ arg = r.arg
            /\ today = r.today /\ zone = r.zone /\ selected = <<>> /\ done = FALSE

IsEvent(e) == l <= Len(Trace) /\ Trace[l].ev = e /\ l' = l + 1

TWalk == IsEvent("Walk") /\ Walk /\ selected' = Trace[l].selected
TReset == IsEvent("Init") /\ done /\ Load(Trace[l])

TNext == TWalk \/ TReset
TSpec == TInit /\ [][TNext]_tvars

Rejected == IF TLCGet("stats").diameter = Len(Trace) THEN TRUE
            ELSE PrintT(<<"REJECTED-AT-LINE", TLCGet("stats").diameter + 1>>) /\ FALSE
=============================================================================
