CONSTANTS
  BookInit = NoBook
  Foods = {}
  Qtys = {}
  MaxEntries = 0
  Day2Set = {}
  Element = 1
  Dump = FALSE
INIT TInit
NEXT TNext
INVARIANTS RegisterExact Agree_TotalsVsRegister Agree_SingleVsTotals Agree_QuantityVsCsvLog Agree_Unresolved PeriodAdditive CsvRows_Log
PROPERTY DayOutputLocal
POSTCONDITION Rejected
CHECK_DEADLOCK FALSE
