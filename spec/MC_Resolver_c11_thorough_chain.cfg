\* C11 thorough (chain): chains of 0..14 recipes, limits 1..12; visiting orders merged by VIEW (the
\* order is a history variable), so every SET of visited recipes is explored; one witness order is dumped
CONSTANTS
  Recipes = {1, 2, 3, 4, 5, 6, 7, 8, 9, 10, 11, 12, 13, 14}
  Leaves = {15}
  MaxIngr = 1
  Depths = {1, 2, 3, 4, 5, 6, 7, 8, 9, 10, 11, 12}
  Impl = "repaired"
  CoefTable <- CoefOnes
  Dump = TRUE
INIT InitChain
NEXT Next
VIEW View
INVARIANTS DepthErrorIffHeight KeysStable DumpInv
CHECK_DEADLOCK FALSE
