---------------------------- MODULE Trace_Present ----------------------------
(***************************************************************************)
(* Trace validation for Present.tla.  The harness runs the real `reg`      *)
(* under one combination of presentation flags, cuts its output into lines *)
(* and fields and records one Day event per date line:                     *)
(*   {"ev":"Init","days":[{date,foods,totals}],"lens":[..],"flags":{..}}   *)
(*   {"ev":"Day","lines":[{k,d,f:[{t,id,cut,v,col}]}]}                     *)
(*   {"ev":"End"}                                                          *)
(* days are the register chunks Reporters.tla predicts for the log (the    *)
(* report items); a run is accepted iff each day's recorded lines are      *)
(* exactly the lines Present.tla renders for that item under those flags.  *)
(***************************************************************************)
EXTENDS Present, Json, IOUtils

VARIABLE l
Trace == ndJsonDeserialize(IOEnv.VERIF_TRACE)
tvars == <<vars, l>>

TInit == /\ l = 2 /\ Trace[1].ev = "Init"
         /\ days = Trace[1].days /\ lens = Trace[1].lens /\ flags = Trace[1].flags
         /\ i = 0 /\ item = NoItem /\ out = <<>> /\ done = FALSE

IsEvent(e) == l <= Len(Trace) /\ Trace[l].ev = e /\ l' = l + 1

TDay == /\ IsEvent("Day") /\ ProcessDay
        /\ out' = out \o Trace[l].lines

TEnd == IsEvent("End") /\ Finish

TReset == /\ IsEvent("Init") /\ done
          /\ days' = Trace[l].days /\ lens' = Trace[l].lens /\ flags' = Trace[l].flags
          /\ i' = 0 /\ item' = NoItem /\ out' = <<>> /\ done' = FALSE

TNext == TDay \/ TEnd \/ TReset
TSpec == TInit /\ [][TNext]_tvars

Rejected == IF TLCGet("stats").diameter = Len(Trace) THEN TRUE
            ELSE PrintT(<<"REJECTED-AT-LINE", TLCGet("stats").diameter + 1>>) /\ FALSE
=============================================================================
