-------------------------------- MODULE Sink --------------------------------
(***************************************************************************)
(* How a report reaches its output: every reporter writes through a        *)
(* bufio.Writer of capacity B (csv.Writer wraps one too) over the output   *)
(* sink, and the command ends with Flush.  The sink accepts `limit` bytes  *)
(* and then fails every write (full disk, closed pipe).                    *)
(*                                                                         *)
(* bufio semantics: Write(n) copies into the buffer; when the buffer       *)
(* fills it is written out; a write larger than the free space with an     *)
(* empty buffer goes straight to the sink; the first error is sticky and   *)
(* later writes / Flush return it.                                         *)
(*                                                                         *)
(* Three ways the command can look at the error:                           *)
(*   checks = "process" : the reporter returns write errors from Process   *)
(*                        (text/template Execute, csv Write, print)        *)
(*   checks = "ignore"  : fmt.Fprintf results are dropped (old register,   *)
(*                        balance, totals ...) - only Flush can tell       *)
(* and two flush disciplines:                                              *)
(*   Impl = "pinned"   : `defer r.Flush()` - the flush error is dropped    *)
(*   Impl = "repaired" : the flush error is returned unless an earlier     *)
(*                       error is already being returned                   *)
(***************************************************************************)
EXTENDS Integers, Sequences, FiniteSets, TLC

CONSTANTS B,          \* buffer capacity
          MaxWrite,   \* a Write call carries 1..MaxWrite bytes
          MaxTotal,   \* reports of at most this many bytes
          Impl

VARIABLES todo,      \* sequence of the sizes of the Write calls still to come
          total,     \* size of the whole report
          limit,     \* the sink accepts this many bytes
          checks,    \* "process" | "ignore"
          buf,       \* bytes in the buffer
          accepted,  \* bytes the sink accepted
          sticky,    \* bufio's sticky error
          err,       \* the error the command is returning ("none" | "write")
          pc         \* "writing" | "flush" | "exit"

vars == <<todo, total, limit, checks, buf, accepted, sticky, err, pc>>

RECURSIVE Sum(_)
Sum(s) == IF s = <<>> THEN 0 ELSE Head(s) + Sum(Tail(s))

Reports == UNION {[1..n -> 1..MaxWrite] : n \in 0..MaxTotal}

Init ==
  /\ todo \in {r \in Reports : Sum(r) <= MaxTotal}
  /\ total = Sum(todo)
  /\ limit \in 0..MaxTotal
  /\ checks \in {"process", "ignore"}
  /\ buf = 0 /\ accepted = 0 /\ sticky = FALSE /\ err = "none" /\ pc = "writing"

\* the sink is asked to take m bytes: [acc, ok]
SinkWrite(acc, m) == IF acc + m <= limit THEN [acc |-> acc + m, ok |-> TRUE] ELSE [acc |-> limit, ok |-> FALSE]

\* bufio.Writer.Write(n) from state (buf, accepted, sticky): [buf, acc, sticky]
RECURSIVE BufWrite(_, _, _, _)
BufWrite(b, acc, st, n) ==
  IF st THEN [buf |-> b, acc |-> acc, sticky |-> TRUE]
  ELSE IF n <= B - b THEN [buf |-> b + n, acc |-> acc, sticky |-> FALSE]
  ELSE IF b = 0 THEN LET w == SinkWrite(acc, n) IN [buf |-> 0, acc |-> w.acc, sticky |-> ~w.ok]     \* large write, empty buffer
  ELSE LET w == SinkWrite(acc, B) IN                                                                \* fill, flush, go on
       IF w.ok THEN BufWrite(0, w.acc, FALSE, n - (B - b)) ELSE [buf |-> B, acc |-> w.acc, sticky |-> TRUE]

Write ==
  /\ pc = "writing" /\ todo # <<>>
  /\ LET r == BufWrite(buf, accepted, sticky, Head(todo)) IN
     /\ buf' = r.buf /\ accepted' = r.acc /\ sticky' = r.sticky
     /\ IF r.sticky /\ checks = "process"
        THEN err' = "write" /\ pc' = "flush"          \* Process returns the error: the walk stops
        ELSE err' = err /\ pc' = pc
  /\ todo' = Tail(todo)
  /\ UNCHANGED <<total, limit, checks>>

EndOfReport ==
  /\ pc = "writing" /\ todo = <<>>
  /\ pc' = "flush"
  /\ UNCHANGED <<todo, total, limit, checks, buf, accepted, sticky, err>>

\* Flush returns the sticky error, or writes the buffer out
Flush ==
  /\ pc = "flush"
  /\ LET w == IF sticky \/ buf = 0 THEN [acc |-> accepted, ok |-> ~sticky] ELSE SinkWrite(accepted, buf) IN
     /\ accepted' = w.acc
     /\ sticky' = (sticky \/ ~w.ok)
     /\ buf' = IF w.ok THEN 0 ELSE buf
     /\ err' = IF err # "none" THEN err
               ELSE IF ~w.ok /\ Impl = "repaired" THEN "write"      \* ReturnFlush
               ELSE err                                            \* DeferredFlush: dropped
  /\ pc' = "exit"
  /\ UNCHANGED <<todo, total, limit, checks>>

Done == pc = "exit" /\ UNCHANGED vars
Next == Write \/ EndOfReport \/ Flush \/ Done
Spec == Init /\ [][Next]_vars /\ WF_vars(Write \/ EndOfReport \/ Flush)

Exit == IF err = "none" THEN 0 ELSE 1

\* C17: success is reported only if every byte of the report was accepted by the sink
SuccessImpliesAllBytesAccepted == (pc = "exit" /\ Exit = 0) => accepted = total
\* and a sink that never fails never causes a failure
NoFalseFailure == (pc = "exit" /\ limit >= total) => Exit = 0 /\ accepted = total
\* bytes are never invented or reordered: accepted never exceeds what was written
AcceptedBounded == accepted <= total /\ accepted <= limit /\ buf <= B
Terminates == <>(pc = "exit")

\* The projection of this machine onto the sink interface (what a failing io.Writer can observe):
\* bytes are only ever added, never beyond the limit, nothing is accepted after the first failure, and
\* success is reported only with everything accepted.  Trace_Sink.tla validates recorded executions
\* against exactly this step relation; here TLC checks that the buffer machine refines it.
IfaceStep ==
  /\ accepted' >= accepted /\ accepted' <= limit
  /\ sticky => (sticky' /\ accepted' = accepted)
  /\ (pc' = "exit" /\ err' = "none" /\ Impl = "repaired") => (~sticky' /\ accepted' = total)
RefinesIface == [][IfaceStep]_vars
=============================================================================
