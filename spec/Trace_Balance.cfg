CONSTANTS
  Segs = {}
  MaxDepth = 0
  MaxLog = 0
  Amts <- TraceAmts
  XName <- XNameA
  XBook <- XBookB
  Impl = "repaired"
  Dump = FALSE
INIT TInit
NEXT TNext
INVARIANTS EachPathOnce SiblingsSorted ParentIsOwnPlusChildren GrandTotalIsTopLevelSum ModesAgreeOnLeaves NoBranchDropped
POSTCONDITION Rejected
CHECK_DEADLOCK FALSE
