#!/bin/bash
# usage: lib/run_mutant.sh <patch.diff> <check id>...   (default: all 18)
# Applies the patch to /repo's working tree, runs the quick tier of the given checks, prints which of
# them report a violation, and restores /repo.  Never commits anything in /repo.
set -u
patch=$(readlink -f "$1"); shift
ids=${*:-C01 C02 C03 C04 C05 C06 C07 C08 C09 C10 C11 C12 C13 C14 C15 C16 C17 C18}
cd /verif
if ! git -C /repo diff --quiet; then echo "/repo working tree is not clean"; exit 2; fi
if ! git -C /repo apply --check "$patch" 2>/dev/null; then echo "patch does not apply: $patch"; exit 2; fi
git -C /repo apply "$patch"
trap 'git -C /repo checkout -- . ; git -C /repo clean -fdq -- . >/dev/null 2>&1' EXIT
caught=""
for id in $ids; do
  out=$(./check $id quick 2>&1); rc=$?
  v=$(echo "$out" | grep -c '^VIOLATION')
  shapes=$(echo "$out" | grep '^  shape=' | sed 's/^  shape=\([^ ]*\).*/\1/' | sort -u | tr '\n' ' ')
  if [ $rc -eq 1 ]; then caught="$caught $id"; echo "$id: VIOLATION ($v) shapes: $shapes"; 
  elif [ $rc -eq 0 ]; then echo "$id: pass";
  else echo "$id: INFRA rc=$rc: $(echo "$out" | grep INFRA | head -2 | cut -c1-300)"; fi
done
echo "CAUGHT-BY:$caught"
