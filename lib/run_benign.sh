#!/bin/bash
# usage: lib/run_benign.sh <name> <patch.diff> [check id...]   (default: all 18)
# False-alarm test: applies a property-PRESERVING change to a scratch copy of /repo (never to /repo itself),
# confirms the baseline test suite still passes there, runs the quick tier of the checks against the copy from a
# scratch copy of /verif (so that parallel lanes do not share evidence / replay files) and prints one line per
# check.  Everything it creates is under /tmp/bn-<name> and is removed at the end.
set -u
name=$1; patch=$(readlink -f "$2"); shift 2
ids=${*:-C01 C02 C03 C04 C05 C06 C07 C08 C09 C10 C11 C12 C13 C14 C15 C16 C17 C18}
w=/tmp/bn-$name
rm -rf $w; mkdir -p $w
trap 'rm -rf $w' EXIT
cp -a /repo $w/repo
rsync -a --exclude .git --exclude replays --exclude seeded /verif/ $w/verif/
git -C $w/repo checkout -q -- . && git -C $w/repo apply "$patch" || { echo "$name: patch does not apply"; exit 2; }
( export GOPROXY=off GOSUMDB=off GOTOOLCHAIN=local; unset GOFLAGS; cd $w/repo && go build ./... && go test -vet=off -count=1 ./... >/dev/null 2>&1 && cd cmd/hranoprovod-cli && go build ./... && go test -vet=off -count=1 ./... >/dev/null 2>&1 ) || { echo "$name: BASELINE-FAILS"; exit 3; }
git -C $w/repo checkout -q -- go.work.sum 2>/dev/null; git -C $w/repo status --short | grep -v '^ M' | head -3
alarms=""
for id in $ids; do
  out=$(cd $w/verif && VERIF_REPO=$w/repo ./check $id quick 2>&1); rc=$?
  if [ $rc -eq 1 ]; then alarms="$alarms $id"; echo "$name $id: VIOLATION shapes: $(echo "$out" | grep '^  shape=' | sed 's/^  shape=\([^ ]*\).*/\1/' | sort -u | tr '\n' ' ')"; echo "$out" | grep -A3 '^VIOLATION' | head -12
  elif [ $rc -eq 0 ]; then echo "$name $id: pass"
  else echo "$name $id: INFRA rc=$rc: $(echo "$out" | grep INFRA | head -2 | cut -c1-300)"; fi
done
echo "$name ALARMS:$alarms"
