#!/bin/sh
# Run once after a fresh restore, offline: warms the Go build cache by building the harness and
# the binary against /repo, and checks that TLC starts.  Builds nothing that the checks do not
# rebuild themselves.
cd "$(dirname "$0")/.." || exit 1
python3 - <<'PY'
import sys
sys.path.insert(0, "lib")
import vlib
ctx = vlib.Ctx("setup", "quick", 1)
ctx.build_harness()
ctx.build_binary()
print("setup ok")
PY
