#!/usr/bin/env python3
"""Writes seeded/<id>/meta.json and seeded/README.md from seeded/RESULTS.txt, seeded/CONFIRMED.json and the
agents' NOTES.md.  (seeded/RESULTS.txt is produced by lib/seeded_matrix.sh.)"""
import json, os, re, glob
V = os.path.dirname(os.path.dirname(os.path.abspath(__file__)))
S = os.path.join(V, "seeded")
res = {}
for line in open(os.path.join(S, "RESULTS.txt")):
    if "|" not in line:
        continue
    mid, rest = [x.strip() for x in line.split("|", 1)]
    checks = {}
    for m in re.finditer(r"(C\d\d): (VIOLATION \(\d+\) shapes: ([^;]*)|pass|INFRA[^;]*)", rest):
        checks[m.group(1)] = ("VIOLATION " + (m.group(3) or "").strip()) if m.group(2).startswith("VIOLATION") else m.group(2)
    caught = re.search(r"CAUGHT-BY:([^;]*)", rest)
    res[mid] = dict(checks=checks, caught_by=(caught.group(1).split() if caught else []))
conf = json.load(open(os.path.join(S, "CONFIRMED.json"))) if os.path.exists(os.path.join(S, "CONFIRMED.json")) else {}
REV = {"01": "C16", "02": "C16", "03": "C08 C09", "04": "C08 C09", "05": "C10", "06": "C05", "07": "C05", "08": "C05", "09": "C14 C07",
       "10": "C07 C03", "11": "C03", "12": "C11 C05", "13": "C17", "14": "C18", "15": "C09"}
rows = []
for d in sorted(glob.glob(os.path.join(S, "*/"))):
    mid = os.path.basename(d.rstrip("/"))
    if not os.path.exists(os.path.join(d, "patch.diff")):
        continue
    files = re.findall(r"^\+\+\+ b/(\S+)", open(os.path.join(d, "patch.diff")).read(), re.M)
    if mid.startswith("revert-"):
        prop = REV[mid[7:]].split()
        what = open(os.path.join(d, "subject.txt")).read().strip().replace("fix: ", "reverts the repair: ")
        needs = "see KNOWN_FINDINGS.txt (the input that failed on the pinned tree)"
        origin = "reverse patch of a fix: commit"
        confirmed = "defect reproduced on the pinned tree before the repair (DESIGN.md section 7)"
    else:
        prop = [mid.split("-")[0]]
        notes = open(os.path.join(d, "NOTES.md")).read() if os.path.exists(os.path.join(d, "NOTES.md")) else ""
        lines = [l.strip("# ").strip() for l in notes.splitlines() if l.strip()]
        what = lines[0] if lines else ""
        m = re.search(r"(?im)^(?:#+\s*)?(?:what (?:is|it) needs?|needs?|trigger|manifests?)[^\n]*\n+((?:.+\n){1,4})", notes)
        needs = " ".join(x.strip("-* ").strip() for x in (m.group(1).splitlines() if m else [])[:3])[:400] or "see NOTES.md"
        rnd = re.search(r"-r(\d)m", mid)
        origin = "independent sub-agent, round %s (given only the property text and a scratch worktree)" % (rnd.group(1) if rnd else "1")
        c = conf.get(mid, {})
        confirmed = "re-confirmed in a scratch worktree: existing tests pass with the change=%s, demonstration fails with it=%s, passes without it=%s" % (
            c.get("existing_tests_pass_with_change"), c.get("demo_fails_with_change"), c.get("demo_passes_without_change"))
    r = res.get(mid, dict(checks={}, caught_by=[]))
    meta = dict(id=mid, breaks_property=prop, files=files, what=what, needs_to_manifest=needs, origin=origin, confirmed=confirmed,
                ran="lib/run_mutant.sh seeded/%s/patch.diff %s  (quick tier, patch applied to /repo and undone afterwards)" % (mid, " ".join(sorted(r["checks"]))),
                results=r["checks"], caught_by=r["caught_by"])
    with open(os.path.join(d, "meta.json"), "w") as f:
        json.dump(meta, f, indent=1)
    rows.append(meta)
with open(os.path.join(S, "README.md"), "w") as f:
    n = len(rows)
    c = sum(1 for r in rows if r["caught_by"])
    f.write("# Seeded changes\n\n%d changes that break a listed property while compiling and passing the repository's own tests; %d are reported by at least one "
            "quick check (`lib/seeded_matrix.sh`, results in RESULTS.txt).\n\n" % (n, c))
    f.write("| id | property | files | what | caught by (quick tier) | violation shapes |\n|---|---|---|---|---|---|\n")
    for r in rows:
        shapes = "; ".join("%s: %s" % (k, v.replace("VIOLATION ", "")) for k, v in sorted(r["results"].items()) if v.startswith("VIOLATION"))
        f.write("| %s | %s | %s | %s | %s | %s |\n" % (r["id"], " ".join(r["breaks_property"]), "<br>".join(os.path.basename(x) for x in r["files"]),
                                                    r["what"][:160].replace("|", "/"), " ".join(r["caught_by"]) or "**missed**", shapes[:300]))
print("wrote", len(rows), "meta.json files")
