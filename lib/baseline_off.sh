#!/bin/sh
# Runs the repository's own test suite with the verif guard OFF (no -tags verif), offline.
# Uses a go.work copy outside /repo so that the build cannot rewrite /repo/go.work.sum.
set -e
export GOPROXY=off GOSUMDB=off GOTOOLCHAIN=local
unset GOFLAGS
T=$(mktemp -d)
trap 'rm -rf "$T"' EXIT
printf 'go 1.17\n\nuse (\n\t/repo\n\t/repo/cmd/hranoprovod-cli\n)\n' > "$T/go.work"
[ -f /repo/go.work.sum ] && cp /repo/go.work.sum "$T/go.work.sum"
export GOWORK="$T/go.work"
rc=0
(cd /repo && go test -vet=off -count=1 "$@" ./...) || rc=1
(cd /repo/cmd/hranoprovod-cli && go test -vet=off -count=1 "$@" ./...) || rc=1
exit $rc
