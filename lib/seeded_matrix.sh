#!/bin/bash
# Runs, for every seeded change, the quick check of the property it was written against (and the extra
# checks listed in seeded/<id>/also.txt), and writes seeded/RESULTS.txt.  /repo is restored after each.
cd /verif
out=seeded/RESULTS.txt
: > $out
declare -A REV=( [01]=C16 [02]=C16 [03]="C08 C09" [04]="C08 C09" [05]=C10 [06]=C05 [07]=C05 [08]=C05 [09]="C14 C07" [10]="C07 C03" [11]=C03 [12]="C11 C05" [13]=C17 [14]=C18 [15]=C09 )
for d in seeded/*/; do
  id=$(basename $d)
  [ -f $d/patch.diff ] || continue
  case $id in
    revert-*) checks=${REV[${id#revert-}]} ;;
    *) checks=${id%%-*}; [ -f $d/also.txt ] && checks="$checks $(cat $d/also.txt)" ;;
  esac
  res=$(lib/run_mutant.sh $d/patch.diff $checks 2>&1 | grep -E '^C[0-9]+:|CAUGHT-BY|does not apply' | tr '\n' ';')
  echo "$id | $res" | tee -a $out
done
