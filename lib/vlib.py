"""Orchestration library for the /verif checks (python3 stdlib only).

Responsibilities:
  * per-run scratch directory (created by the run, removed on exit);
  * building the Go harness *into* /repo's working tree with -overlay and -tags verif,
    and the real binary (CGO_ENABLED=0, -tags verif);
  * running TLC with a bounded heap / private metadir / timeout and parsing its counts,
    its verdict and the JSON lines the specification prints from its terminal states;
  * running the harness in its different modes;
  * verdict policy (exit 0 / 1 / 2), known findings, replay files, evidence files.

Exit codes:  0 = property held on everything explored
             1 = violation reproduced on the real code ("VIOLATION property=.. replay=..")
             2 = infrastructure problem (never a violation)
"""
import atexit
import hashlib
import json
import os
import re
import shutil
import subprocess
import sys
import tempfile
import time

VERIF = os.path.dirname(os.path.dirname(os.path.abspath(__file__)))
REPO = os.environ.get("VERIF_REPO", "/repo")
CLI_DIR = os.path.join(REPO, "cmd", "hranoprovod-cli")
SPEC_DIR = os.path.join(VERIF, "spec")
HARNESS_DIR = os.path.join(VERIF, "harness")
EVIDENCE_DIR = os.path.join(VERIF, "evidence")
REPLAY_DIR = os.path.join(VERIF, "replays")
KNOWN_FINDINGS = os.path.join(VERIF, "KNOWN_FINDINGS.txt")
TLA_CP = "/opt/veriftools/tla/tla2tools.jar:/opt/veriftools/tla/CommunityModules-deps.jar"
NCPU = os.cpu_count() or 4


class Infra(Exception):
    """Infrastructure failure: exit 2, never a violation."""


def log(*a):
    print(*a, flush=True)


def go_env(scratch):
    env = dict(os.environ)
    env.update({
        "GOPROXY": "off", "GOSUMDB": "off", "GOTOOLCHAIN": "local",
        "GOWORK": os.path.join(scratch, "gowork", "go.work"),
    })
    env.pop("GOFLAGS", None)  # workspace mode: -mod=mod is not allowed
    return env


class Ctx:
    def __init__(self, pid, tier, seed):
        self.pid = pid
        self.tier = tier
        self.seed = seed
        self.t0 = time.time()
        self.scratch = tempfile.mkdtemp(prefix="verif-%s-" % pid)
        atexit.register(self.cleanup)
        self.violations = []     # dicts: {shape, site, what, replay}
        self.known_hits = []
        self.cov = {}            # evidence coverage accumulators
        self.samples = []
        self.tlc_runs = []
        self.assumptions = []
        self._built = False
        self._bin = None

    def cleanup(self):
        if os.environ.get("VERIF_KEEP"):
            log("scratch kept:", self.scratch)
            return
        shutil.rmtree(self.scratch, ignore_errors=True)

    # ------------------------------------------------------------------ build
    def _gowork(self):
        d = os.path.join(self.scratch, "gowork")
        if not os.path.isdir(d):
            os.makedirs(d)
            with open(os.path.join(d, "go.work"), "w") as f:
                f.write("go 1.17\n\nuse (\n\t%s\n\t%s\n)\n" % (REPO, CLI_DIR))
            src = os.path.join(REPO, "go.work.sum")
            if os.path.exists(src):
                shutil.copy(src, os.path.join(d, "go.work.sum"))
        return d

    def build_harness(self):
        """go test -c of cmd/hranoprovod-cli with the harness overlaid, -tags verif."""
        if self._built:
            return os.path.join(self.scratch, "drv.test")
        self._gowork()
        repl = {os.path.join(CLI_DIR, "zz_verif_test.go"): os.path.join(HARNESS_DIR, "zz_verif_test.go")}
        drv = os.path.join(HARNESS_DIR, "verifdrv")
        for fn in sorted(os.listdir(drv)):
            if fn.endswith(".go"):
                repl[os.path.join(CLI_DIR, "internal", "verifdrv", fn)] = os.path.join(drv, fn)
        ov = os.path.join(self.scratch, "overlay.json")
        with open(ov, "w") as f:
            json.dump({"Replace": repl}, f)
        out = os.path.join(self.scratch, "drv.test")
        cmd = ["go", "test", "-c", "-vet=off", "-tags", "verif", "-overlay", ov, "-o", out, "."]
        if os.environ.get("VERIF_RACE"):
            cmd.insert(3, "-race")
        t = time.time()
        p = subprocess.run(cmd, cwd=CLI_DIR, env=go_env(self.scratch), capture_output=True, text=True, timeout=900)
        if p.returncode != 0:
            raise Infra("harness does not build against the current tree:\n" + p.stdout + p.stderr)
        self._built = True
        log("[build] harness %.1fs" % (time.time() - t))
        return out

    def build_race_harness(self):
        self._gowork()
        out = os.path.join(self.scratch, "drv.race.test")
        if os.path.exists(out):
            return out
        self.build_harness()
        ov = os.path.join(self.scratch, "overlay.json")
        cmd = ["go", "test", "-c", "-race", "-vet=off", "-tags", "verif", "-overlay", ov, "-o", out, "."]
        env = go_env(self.scratch)
        env["CGO_ENABLED"] = "1"
        p = subprocess.run(cmd, cwd=CLI_DIR, env=env, capture_output=True, text=True, timeout=900)
        if p.returncode != 0:
            raise Infra("race harness does not build:\n" + p.stdout + p.stderr)
        return out

    def build_binary(self):
        if self._bin:
            return self._bin
        self._gowork()
        out = os.path.join(self.scratch, "hr")
        env = go_env(self.scratch)
        env["CGO_ENABLED"] = "0"
        t = time.time()
        p = subprocess.run(["go", "build", "-tags", "verif", "-o", out, "."], cwd=CLI_DIR, env=env,
                           capture_output=True, text=True, timeout=900)
        if p.returncode != 0:
            raise Infra("binary does not build:\n" + p.stdout + p.stderr)
        self._bin = out
        log("[build] binary %.1fs" % (time.time() - t))
        return out

    # ------------------------------------------------------------------ harness
    def drv(self, mode, infile=None, outfile=None, tracefile=None, shape_filter=None, args=None, timeout=1800, race=False, env_extra=None):
        """Run the harness in <mode>.  Returns parsed JSON summary printed on the last stdout line."""
        exe = self.build_race_harness() if race else self.build_harness()
        env = dict(os.environ)
        env["VERIF_MODE"] = mode
        env["VERIF_SEED"] = str(self.seed)
        env["VERIF_TIER"] = self.tier
        env["VERIF_SCRATCH"] = self.scratch
        if infile:
            env["VERIF_IN"] = infile
        if outfile:
            env["VERIF_OUT"] = outfile
        if tracefile:
            env["VERIF_TRACE_OUT"] = tracefile
        if args:
            env["VERIF_ARGS"] = json.dumps(args)
        if env_extra:
            env.update(env_extra)
        t = time.time()
        try:
            p = subprocess.run([exe, "-test.run", "^$"], env=env, capture_output=True, text=True,
                               timeout=timeout, cwd=self.scratch)
        except subprocess.TimeoutExpired:
            raise Infra("harness mode %s timed out after %ds" % (mode, timeout))
        if p.returncode != 0 and "VERIF_PAR" not in env and re.search(r"concurrent map (writes|read|iteration)|DATA RACE", p.stderr):
            # the code under test is not re-entrant (shared mutable state): commands are then run one at a time,
            # the way the program is really used, so that the defect shows as a disagreement and not as a crash of the driver
            log("[drv] %s: concurrent access inside the code under test; re-running sequentially" % mode)
            env["VERIF_PAR"] = "1"
            try:
                p = subprocess.run([exe, "-test.run", "^$"], env=env, capture_output=True, text=True, timeout=timeout * 4, cwd=self.scratch)
            except subprocess.TimeoutExpired:
                raise Infra("harness mode %s timed out (sequential re-run)" % mode)
        if p.returncode != 0:
            err = p.stderr if len(p.stderr) < 6000 else p.stderr[:2500] + "\n[...]\n" + p.stderr[-2500:]
            ex = Infra("harness mode %s failed (rc=%d):\n%s\n%s" % (mode, p.returncode, p.stdout[-2000:], err))
            ex.progress = [int(x) for x in re.findall(r"PROGRESS (\d+)", p.stderr)]
            ex.fatal = bool(re.search(r"fatal error|goroutine stack exceeds|^panic:|signal SIG", p.stderr, re.M))
            raise ex
        lines = [l for l in p.stdout.splitlines() if l.startswith("{")]
        if not lines:
            raise Infra("harness mode %s printed no summary:\n%s\n%s" % (mode, p.stdout[-2000:], p.stderr[-2000:]))
        res = json.loads(lines[-1])
        res["_wall"] = time.time() - t
        # mismatches the harness found by itself are violations observed on the real code
        if outfile and os.path.exists(outfile) and not getattr(self, "_no_auto_mm", False):
            for m in read_ndjson(outfile):
                if "shape" in m:
                    if shape_filter and not shape_filter(m["shape"]):
                        # a disagreement that belongs to another property's check: counted, not reported here
                        self.cov.setdefault("mismatches_left_to_other_properties", {})
                        d = self.cov["mismatches_left_to_other_properties"]
                        d[m["shape"]] = d.get(m["shape"], 0) + 1
                        continue
                    self.violation(m["shape"], m["what"], m.get("case"), m.get("site", ""))
        log("[drv] %-22s %.1fs %s" % (mode, res["_wall"], {k: v for k, v in res.items() if k in ("cases", "mismatches", "traces", "events", "runs")}))
        return res

    # ------------------------------------------------------------------ TLC
    def spec_copy(self):
        d = os.path.join(self.scratch, "spec")
        if not os.path.isdir(d):
            shutil.copytree(SPEC_DIR, d)
        return d

    def tlc(self, module, cfg, workers=None, heap="2g", timeout=900, simulate=None, depth=None,
            extra=None, cwd_files=None, env_extra=None, max_set=None, dump_json=False, dump_path=None, label=None, deadlock=None, coverage=False):
        """Run TLC.  Returns dict(ok, generated, distinct, violated, out, lines(json objects printed))."""
        d = self.spec_copy()
        if cwd_files:
            for name, content in cwd_files.items():
                with open(os.path.join(d, name), "w") as f:
                    f.write(content)
        n = len(self.tlc_runs)
        meta = os.path.join(self.scratch, "meta-%d" % n)
        w = str(workers or min(NCPU, 8))
        jtmp = os.path.join(self.scratch, "jtmp")
        os.makedirs(jtmp, exist_ok=True)
        cmd = ["java", "-Xmx" + heap, "-Xss64m", "-XX:+UseParallelGC", "-XX:ParallelGCThreads=4",
               "-Djava.io.tmpdir=" + jtmp, "-cp", TLA_CP,
               "tlc2.TLC", "-noGenerateSpecTE", "-metadir", meta, "-workers", w, "-config", cfg]
        if max_set:
            # only where an Init set is larger than TLC's default bound of 10^6 (it slows other runs down a lot)
            cmd += ["-maxSetSize", str(max_set)]
        if simulate:
            cmd += ["-simulate", simulate]
        if depth:
            cmd += ["-depth", str(depth)]
        if deadlock is False:
            cmd += ["-deadlock"]
        if coverage:
            cmd += ["-coverage", "1"]
        if extra:
            cmd += extra
        cmd.append(module)
        t = time.time()
        outp = os.path.join(self.scratch, "tlc-%d.out" % n)
        with open(outp, "w") as fo:
            try:
                env = dict(os.environ)
                if env_extra:
                    env.update(env_extra)
                p = subprocess.run(cmd, cwd=d, stdout=fo, stderr=subprocess.STDOUT, timeout=timeout, env=env)
                rc = p.returncode
            except subprocess.TimeoutExpired:
                subprocess.run(["pkill", "-f", meta], capture_output=True)
                raise Infra("TLC %s/%s timed out after %ds" % (module, cfg, timeout))
        wall = time.time() - t
        shutil.rmtree(meta, ignore_errors=True)
        gen = dist = 0
        violated = []
        errors = []
        jl = []
        tail = []
        ndump = 0
        completed = False
        dumpf = open(dump_path, "a") if dump_path else None
        with open(outp, errors="replace") as f:
            for line in f:
                if (dump_json or dumpf) and line.startswith('"'):
                    try:
                        inner = json.loads(line)
                        if dumpf:
                            dumpf.write(inner)
                            dumpf.write("\n")
                            ndump += 1
                        else:
                            jl.append(json.loads(inner))
                        continue
                    except Exception:
                        raise Infra("unparsable JSON line from TLC: " + line[:200])
                tail.append(line)
                if len(tail) > 400:
                    tail.pop(0)
                if line.startswith("Model checking completed. No error has been found."):
                    completed = True
                m = re.match(r"(\d+) states generated, (\d+) distinct states found", line)
                if m:
                    gen, dist = int(m.group(1)), int(m.group(2))
                m = re.match(r"Error: Invariant (\S+) is violated", line)
                if m:
                    violated.append(m.group(1))
                m = re.match(r"Error: Action property (\S+) is violated", line)
                if m:
                    violated.append(m.group(1))
                if line.startswith("Error: Temporal properties were violated") or "is violated" in line and line.startswith("Error: Property"):
                    violated.append("temporal")
                if line.startswith("Error:") and "violated" not in line:
                    errors.append(line.strip())
        if dumpf:
            dumpf.close()
        txt = "".join(tail)
        ok = completed or (simulate and rc == 0 and not violated and not errors)
        run = dict(module=module, cfg=cfg, generated=gen, distinct=dist, wall_s=round(wall, 1), ok=bool(ok),
                   violated=violated, label=label or cfg)
        self.tlc_runs.append(run)
        log("[tlc] %-28s %-32s gen=%d distinct=%d %.1fs %s" % (module, cfg, gen, dist, wall,
            "ok" if ok else ("VIOLATED " + ",".join(violated) if violated else "ERROR")))
        res = dict(run)
        res["out"] = txt
        res["lines"] = jl
        res["dumped"] = ndump
        res["errors"] = errors
        res["rc"] = rc
        res["outfile"] = outp
        if os.path.getsize(outp) > 50 << 20:
            os.remove(outp)
        return res

    def tlc_must_pass(self, *a, **kw):
        r = self.tlc(*a, **kw)
        if not r["ok"]:
            if r["violated"]:
                # A counterexample on the model alone is not a violation of the code: report as infra
                raise Infra("TLC reports %s violated in %s (model-level counterexample; the specification or its "
                            "configuration no longer matches the design):\n%s" % (r["violated"], r["cfg"], r["out"][-3000:]))
            raise Infra("TLC failed on %s:\n%s" % (r["cfg"], r["out"][-3000:]))
        return r

    # ------------------------------------------------------------------ verdicts
    def violation(self, shape, what, case, site=""):
        """Record a violation observed on the real code.  shape/site identify it for KNOWN_FINDINGS."""
        self.violations.append(dict(shape=shape, site=site, what=what, case=case))

    def sample(self, s, limit=6):
        if len(self.samples) < limit:
            self.samples.append(s)

    def add(self, key, n=1):
        self.cov[key] = self.cov.get(key, 0) + n


def load_known():
    """KNOWN_FINDINGS.txt: 'finding: property=<id> shape=<shape> [site=..] text' / 'fixed: ...' lines."""
    open_f = []
    if os.path.exists(KNOWN_FINDINGS):
        for line in open(KNOWN_FINDINGS):
            line = line.strip()
            if not line.startswith("finding:"):
                continue
            m = re.match(r"finding:\s+property=(\S+)\s+shape=(\S+)\s*(.*)", line)
            if m:
                open_f.append(dict(pid=m.group(1), shape=m.group(2), text=m.group(3)))
    return open_f


def write_replay(ctx, v, idx):
    d = os.path.join(REPLAY_DIR, ctx.pid)
    os.makedirs(d, exist_ok=True)
    body = json.dumps(dict(property=ctx.pid, shape=v["shape"], site=v["site"], what=v["what"], case=v["case"]),
                      indent=1, sort_keys=True, default=str)
    h = hashlib.sha1(body.encode()).hexdigest()[:10]
    p = os.path.join(d, "%s-%s.json" % (v["shape"], h))
    with open(p, "w") as f:
        f.write(body)
    return p


def finish(ctx, level, rule, explanation="", exhaustive=False, extra_cov=None, trusted=None):
    """Classify violations against known findings, write evidence, print verdict lines, exit."""
    known = [k for k in load_known() if k["pid"] == ctx.pid]
    known_shapes = {k["shape"]: k for k in known}
    fresh = []
    hit = {}
    for v in ctx.violations:
        if v["shape"] in known_shapes:
            hit.setdefault(v["shape"], []).append(v)
        else:
            fresh.append(v)
    for shape, vs in sorted(hit.items()):
        print("KNOWN-FINDING: property=%s shape=%s %s (%d occurrences this run; e.g. %s)" % (
            ctx.pid, shape, known_shapes[shape]["text"], len(vs), vs[0]["what"][:200]))
    # one VIOLATION line per distinct shape (first occurrence), at most 10
    seen = set()
    nline = 0
    for v in fresh:
        if v["shape"] in seen:
            continue
        seen.add(v["shape"])
        p = write_replay(ctx, v, nline)
        print("VIOLATION property=%s replay=%s" % (ctx.pid, p))
        print("  shape=%s %s" % (v["shape"], v["what"][:600]))
        nline += 1
        if nline >= 10:
            break
    gen = sum(r["generated"] for r in ctx.tlc_runs)
    dist = sum(r["distinct"] for r in ctx.tlc_runs)
    cov = dict(ctx.cov)
    cov.update(dict(
        states=dist, transitions=gen,
        traces_validated_against_impl=int(cov.get("traces_validated_against_impl", 0)),
        samples=ctx.samples or ["(no sample recorded)"],
        rule=rule, exhaustive=bool(exhaustive),
        evaluations=int(cov.get("evaluations", 0)),
        distinct_nontrivial=int(cov.get("distinct_nontrivial", 0)),
        tlc_runs=ctx.tlc_runs,
        trusted_base=trusted or [],
        explanation=explanation,
        known_findings_hit=sorted(hit.keys()),
    ))
    if extra_cov:
        cov.update(extra_cov)
    ev = dict(property_id=ctx.pid, tier=ctx.tier, seed=ctx.seed, level=level, coverage=cov,
              assumptions=ctx.assumptions, wall_s=round(time.time() - ctx.t0, 1), violations=len(fresh))
    os.makedirs(EVIDENCE_DIR, exist_ok=True)
    tmp = os.path.join(EVIDENCE_DIR, ".%s.json.tmp" % ctx.pid)
    with open(tmp, "w") as f:
        json.dump(ev, f, indent=1, default=str)
    os.replace(tmp, os.path.join(EVIDENCE_DIR, "%s.json" % ctx.pid))
    log("[done] %s %s wall=%.1fs tlc_states=%d evaluations=%d violations=%d known=%d" % (
        ctx.pid, ctx.tier, time.time() - ctx.t0, dist, cov["evaluations"], len(fresh), len(hit)))
    return 1 if fresh else 0


def write_ndjson(path, rows):
    with open(path, "w") as f:
        for r in rows:
            f.write(json.dumps(r, separators=(",", ":")))
            f.write("\n")


def read_ndjson(path):
    out = []
    with open(path) as f:
        for line in f:
            line = line.strip()
            if line:
                out.append(json.loads(line))
    return out


def validate_traces(ctx, module, cfg, trace_path, shape, site="", max_rejections=5, timeout=900, heap="2g"):
    """Trace validation (code -> specification).  trace_path: ndjson, traces concatenated, each starts
    with an {"ev":"Init",...} line.  TLC must consume every line (POSTCONDITION Rejected prints the first
    unexplained line).  A rejected trace is reported as a violation (it is an execution of the real code
    that the specification does not allow), removed, and validation continues with the rest.
    Returns (traces validated, events)."""
    lines = open(trace_path).read().splitlines()
    lines = [l for l in lines if l.strip()]
    if not lines:
        raise Infra("no trace recorded for " + module)
    total_traces = sum(1 for l in lines if l.startswith('{"ev":"Init"'))
    rejected = 0
    rnd = 0
    while True:
        rnd += 1
        cur = os.path.join(ctx.scratch, "trace-%s-%d.ndjson" % (module.replace(".tla", ""), rnd))
        with open(cur, "w") as f:
            f.write("\n".join(lines) + "\n")
        r = ctx.tlc(module, cfg, workers=1, timeout=timeout, heap=heap, env_extra={"VERIF_TRACE": cur},
                    label="trace validation %s round %d (%d lines)" % (module, rnd, len(lines)))
        if r["ok"]:
            break
        m = re.search(r'"REJECTED-AT-LINE", (\d+)', r["out"])
        if r["violated"] and not m:
            # an invariant of the specification is false in a state of a recorded execution
            m2 = re.search(r"l = (\d+)", r["out"][r["out"].rfind("Error: Invariant"):] if "Error: Invariant" in r["out"] else "")
            # find the l of the last printed state
            ls = re.findall(r"/\\ l = (\d+)", r["out"])
            if not ls:
                raise Infra("trace validation of %s failed without a position:\n%s" % (module, r["out"][-3000:]))
            at = int(ls[-1]) - 1
            why = "invariant %s of the specification is false in a state of a recorded execution" % ",".join(r["violated"])
        elif m:
            at = int(m.group(1))
            why = "no action of the specification explains the recorded event"
        else:
            raise Infra("trace validation of %s failed:\n%s" % (module, r["out"][-3000:]))
        if at < 1 or at > len(lines):
            raise Infra("trace validation of %s: position %d out of range" % (module, at))
        # the trace containing line `at` (1-based)
        start = at - 1
        while start > 0 and not lines[start].startswith('{"ev":"Init"'):
            start -= 1
        end = at
        while end < len(lines) and not lines[end].startswith('{"ev":"Init"'):
            end += 1
        tr = [json.loads(x) for x in lines[start:end]]
        ctx.violation(shape, "%s: event %d of the trace: %s" % (why, at - start, lines[at - 1][:300]),
                      dict(trace=tr, rejected_event_index=at - start, module=module), site)
        rejected += 1
        del lines[start:end]
        if rejected >= max_rejections or not lines:
            break
    ctx.add("traces_validated_against_impl", total_traces)
    ctx.add("trace_events", len(lines))
    return total_traces, len(lines)


def trace_accepts(ctx, module, cfg, lines, tag, timeout=300):
    """True iff TLC accepts the given trace lines (no violation is recorded)."""
    cur = os.path.join(ctx.scratch, "selftest-%s-%s.ndjson" % (module.replace(".tla", ""), tag))
    with open(cur, "w") as f:
        f.write("\n".join(lines) + "\n")
    r = ctx.tlc(module, cfg, workers=1, timeout=timeout, env_extra={"VERIF_TRACE": cur}, label="binding self-test " + tag)
    ctx.tlc_runs.pop()  # self-tests are not coverage
    if r["ok"]:
        return True
    if r["violated"] or "REJECTED-AT-LINE" in r["out"]:
        return False
    raise Infra("self-test of %s failed to run:\n%s" % (module, r["out"][-2000:]))


def binding_selftest(ctx, module, cfg, trace_path, corruptions):
    """DESIGN 3.6: corrupt one field of one recorded event; the corrupted trace must be rejected.
    corruptions: list of (tag, fn(list of event dicts) -> list of event dicts or None)."""
    if ctx.violations:
        return  # the recorded executions already disagree with the specification; the self-test of the machinery is moot
    lines = [l for l in open(trace_path).read().splitlines() if l.strip()]
    # first few traces
    traces = []
    cur = []
    for l in lines:
        if l.startswith('{"ev":"Init"') and cur:
            traces.append(cur)
            cur = []
        cur.append(json.loads(l))
        if len(traces) >= 60:
            break
    if cur and len(traces) < 60:
        traces.append(cur)
    done = []
    for tag, fn in corruptions:
        ok = False
        for tr in traces:
            c = fn(json.loads(json.dumps(tr)))
            if c is None:
                continue
            base = [json.dumps(e, separators=(",", ":")) for e in tr]
            if not trace_accepts(ctx, module, cfg, base, tag + "-base"):
                continue  # (a trace that is itself rejected is reported by validate_traces)
            if trace_accepts(ctx, module, cfg, [json.dumps(e, separators=(",", ":")) for e in c], tag):
                raise Infra("binding self-test: corrupted trace (%s) was ACCEPTED by %s - the trace specification does not bind" % (tag, module))
            ok = True
            break
        if not ok:
            if ctx.violations:
                # the recorded executions already disagree with the specification; the self-test is moot
                continue
            raise Infra("binding self-test %s: no recorded trace could be corrupted" % tag)
        done.append(tag)
    ctx.cov["binding_selftests_rejected"] = ctx.cov.get("binding_selftests_rejected", []) + done


def vacuity_check(ctx, module, cfg, expect_zero=(), workers=4, heap="2g", timeout=900):
    """DESIGN 3.6: run the configuration once with -coverage 1; every action of the module (the operators TLC
    lists as `<Name line .. of module M>: generated:distinct`) must have been taken at least once, except those
    named in expect_zero (actions of the other implementation variant).  A never-taken action means the
    properties were not exercised there: exit 2, not a pass."""
    r = ctx.tlc(module, cfg, workers=workers, heap=heap, timeout=timeout, coverage=True, label="coverage / vacuity " + cfg)
    ctx.tlc_runs.pop()
    if not r["ok"]:
        raise Infra("coverage run of %s failed:\n%s" % (cfg, r["out"][-2000:]))
    counts = {}
    for line in open(r["outfile"], errors="replace") if os.path.exists(r["outfile"]) else r["out"].splitlines():
        m = re.match(r"<(\w+) line \d+, col \d+ to line \d+, col \d+ of module (\w+)>: (\d+):(\d+)", line)
        if m:
            counts[m.group(1)] = counts.get(m.group(1), 0) + int(m.group(3))
    if not counts:
        raise Infra("no coverage information from TLC for " + cfg)
    # (stuttering steps of finished runs - Done / Terminated - generate no state and are always reported as 0)
    never = sorted(a for a, n in counts.items() if n == 0 and a not in expect_zero and a not in ("Done", "Terminated"))
    ctx.cov.setdefault("vacuity", {})[cfg] = dict(actions=counts, never_taken=never)
    if never:
        raise Infra("vacuity: actions never taken in %s: %s" % (cfg, ", ".join(never)))
    return counts
