#!/bin/bash
# usage: lib/seeded_lanes.sh [lanes] [id pattern]   (default 6 lanes, every change; with a pattern only the matching
# changes are run and their lines replace the old ones in seeded/RESULTS.txt)
# Like lib/seeded_matrix.sh, but never touches /repo: every seeded change is applied to a scratch copy of /repo and the
# quick check of the property it was written against (plus the checks in seeded/<id>/also.txt) runs against that copy
# (VERIF_REPO) from a scratch copy of /verif; several lanes side by side.  Writes seeded/RESULTS.txt.
cd /verif
lanes=${1:-6}
pat=${2:-.}
work=/tmp/seeded-lanes; rm -rf $work; mkdir -p $work
trap 'rm -rf $work' EXIT
declare -A REV=( [01]=C16 [02]=C16 [03]="C08 C09" [04]="C08 C09" [05]=C10 [06]=C05 [07]=C05 [08]=C05 [09]="C14 C07" [10]="C07 C03" [11]=C03 [12]="C11 C05" [13]=C17 [14]=C18 [15]=C09 )
ls -d seeded/*/ | while read d; do [ -f $d/patch.diff ] && basename $d; done | grep -E "$pat" > $work/all.txt
split -n r/$lanes $work/all.txt $work/part.
rsync -a --exclude .git --exclude replays --exclude seeded --exclude benign /verif/ $work/verif/
for f in $work/part.*; do
  (
    lane=$(basename $f)
    cp -a $work/verif $work/verif-$lane
    while read id; do
      d=seeded/$id
      case $id in
        revert-*) checks=${REV[${id#revert-}]} ;;
        *) checks=${id%%-*}; [ -f $d/also.txt ] && checks="$checks $(cat $d/also.txt)" ;;
      esac
      r=$work/repo-$lane; rm -rf $r; cp -a /repo $r; git -C $r checkout -q -- .
      if ! git -C $r apply /verif/$d/patch.diff 2>/dev/null; then echo "$id | patch does not apply;" >> $work/res-$lane.txt; continue; fi
      res=""; caught=""
      for c in $checks; do
        out=$(cd $work/verif-$lane && VERIF_REPO=$r ./check $c quick 2>&1); rc=$?
        v=$(echo "$out" | grep -c '^VIOLATION')
        shapes=$(echo "$out" | grep '^  shape=' | sed 's/^  shape=\([^ ]*\).*/\1/' | sort -u | tr '\n' ' ')
        if [ $rc -eq 1 ]; then caught="$caught $c"; res="$res$c: VIOLATION ($v) shapes: $shapes;"
        elif [ $rc -eq 0 ]; then res="$res$c: pass;"
        else res="$res$c: INFRA rc=$rc: $(echo "$out" | grep INFRA | head -1 | cut -c1-200 | tr ';|' ',,');"; fi
      done
      echo "$id | ${res}CAUGHT-BY:$caught;" >> $work/res-$lane.txt
      rm -rf $r
    done < $f
  ) &
done
wait
if [ "$pat" = "." ]; then cat $work/res-*.txt | sort > seeded/RESULTS.txt
else ( grep -v -F -f <(sed 's/$/ |/' $work/all.txt) seeded/RESULTS.txt; cat $work/res-*.txt ) | sort > $work/merged.txt; cp $work/merged.txt seeded/RESULTS.txt; fi
echo "wrote seeded/RESULTS.txt: $(wc -l < seeded/RESULTS.txt) changes, $(grep -c 'CAUGHT-BY: C' seeded/RESULTS.txt) reported"
