"""C01 - nested recipes resolve to the exact sum of products (DESIGN.md section 5, C01)."""
import os
import vlib

QUICK = ["MC_Resolver_c01_quick_a.cfg", "MC_Resolver_c01_quick_b.cfg"]
THOROUGH = QUICK + ["MC_Resolver_c01_thorough_a.cfg", "MC_Resolver_c01_thorough_b.cfg", "MC_Resolver_c01_thorough_c.cfg"]


def run(ctx):
    ctx.build_harness()
    cases = os.path.join(ctx.scratch, "resolver_cases.ndjson")
    total = 0
    for cfg in (QUICK if ctx.tier == "quick" else THOROUGH):
        r = ctx.tlc_must_pass("MC_Resolver.tla", cfg, dump_path=cases, timeout=2400, workers=12 if "thorough_c" in cfg else 8,
                              heap="6g" if "thorough_c" in cfg else "2g", max_set=8000000 if "thorough_c" in cfg else None)
        total += r["dumped"]
    if total == 0:
        raise vlib.Infra("TLC enumerated no terminal state")
    mm = os.path.join(ctx.scratch, "resolver_mm.ndjson")
    res = ctx.drv("resolver-replay", infile=cases, outfile=mm, args={"tries": 64})
    if res["cases"] != total:
        raise vlib.Infra("harness replayed %d of %d cases" % (res["cases"], total))
    # the CLI path: book files (declaration order, repeated headings: last wins) -> csv database-resolved
    from props import common
    common.replay_layer(ctx, "MC_Resolver.tla", "MC_Resolver_records.cfg", "book-reports-replay", "bookfiles", args={"stride": 1}, workers=8,
                        shape_filter=lambda sh: sh in ("csv-database-resolved-rows", "resolver-status", "report-fails", "cli-panic"))
    # direction (b): executions of the real resolver on random books far beyond the exhaustive bound,
    # recorded (Init, Visit*, Exit) and validated by TLC against Trace_Resolver.tla
    tr = os.path.join(ctx.scratch, "resolver_trace.ndjson")
    mm2 = os.path.join(ctx.scratch, "resolver_trace_mm.ndjson")
    nb = 400 if ctx.tier == "quick" else 6000
    res2 = ctx.drv("resolver-trace", outfile=mm2, tracefile=tr, args={"books": nb})
    vlib.validate_traces(ctx, "Trace_Resolver.tla", "Trace_Resolver.cfg", tr, "resolver-trace-rejected", "resolver/resolver.go")
    vlib.binding_selftest(ctx, "Trace_Resolver.tla", "Trace_Resolver.cfg", tr, [("amount-off-by-one", corrupt_amount), ("visit-dropped", drop_visit)])
    ctx.add("evaluations", res2["runs"])
    ctx.add("distinct_nontrivial", res2["nontrivial"])
    ctx.add("evaluations", res["runs"])
    ctx.add("distinct_nontrivial", res["nontrivial"])
    ctx.add("traces_validated_against_impl", res["cases"])
    for s in res.get("samples", []):
        ctx.sample(s)
    if ctx.tier == "thorough":
        vlib.vacuity_check(ctx, "MC_Resolver.tla", "MC_Resolver_c01_quick_a.cfg", expect_zero=())
    return vlib.finish(
        ctx, "model_checking",
        rule="TLC enumerates every book over the configured recipes/leaves/ingredient bound and every visiting order; "
             "each terminal state (book, order -> resolved book | depth error) is replayed through resolver.Resolve with the "
             "order forced via insertion order + VerifVisit, through Resolver.Resolve, and through a second Resolve; "
             "non-trivial = a recipe with >= 2 ingredients or referencing another defined recipe",
        exhaustive=True,
        extra_cov=dict(replay=res.get("extra", {}), spec_variant="repaired"),
        trusted=["harness/verifdrv/resolver.go buildDB/compareDB (concretisation, exact float comparison on dyadic units)",
                 "Go runtime map iteration = rotation of insertion order for <= 8 keys (observed through the VerifVisit hook, not assumed)"])


def corrupt_amount(tr):
    for e in tr:
        if e["ev"] == "Exit" and e["status"] == "ok":
            for r in e["db"]:
                if r[1]:
                    r[1][0][1] += 1
                    return tr
    return None


def drop_visit(tr):
    for i, e in enumerate(tr):
        if e["ev"] == "Visit" and tr[-1]["status"] == "ok":
            del tr[i]
            return tr
    return None


def replay(ctx, path):
    import json
    c = json.load(open(path))
    case = c["case"]["case"] if "case" in c["case"] else c["case"]
    ctx.build_harness()
    f = os.path.join(ctx.scratch, "one.ndjson")
    vlib.write_ndjson(f, [case])
    mm = os.path.join(ctx.scratch, "mm.ndjson")
    res = ctx.drv("resolver-replay", infile=f, outfile=mm)
    for m in vlib.read_ndjson(mm):
        print("REPRODUCED:", m["shape"], m["what"])
    print("specification predicts:", case.get("status"), case.get("db"))
    return 1 if res["mismatches"] else 0
