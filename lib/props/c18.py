"""C18 - the channel parser delivers the callback parser's result under every schedule."""
import vlib
from props import common


def run(ctx):
    ctx.build_harness()
    q = ctx.tier == "quick"
    # every interleaving of producer and consumer, safety + liveness
    r = ctx.tlc_must_pass("ChanParser.tla", "MC_ChanParser.cfg", workers=4, label="ChanParser: all interleavings, safety + liveness")
    # the summary of the callback parser used by ChanParser (first error stops; returned error) is Parser.tla's
    ctx.tlc_must_pass("MC_Parser.tla", "MC_Parser_bad_quick.cfg", workers=10, heap="3g", label="Parser: FirstErrorReturned (what the adapter's callback relies on)")
    args = {"runs": 600 if q else 20000}
    common.trace_layer(ctx, "chan-trace", "Trace_ChanParser.tla", "Trace_ChanParser.cfg", "chan", "chan-trace-rejected", args,
                       "parser/parser.go", selftests=[("error-received-twice", dup_error), ("record-skipped", skip_node)])
    if not q:
        # the same under the race detector
        import os
        tr = os.path.join(ctx.scratch, "chan_race_trace.ndjson")
        res = ctx.drv("chan-trace", outfile=os.path.join(ctx.scratch, "chan_race_mm.ndjson"), tracefile=tr, args={"runs": 4000}, race=True)
        vlib.validate_traces(ctx, "Trace_ChanParser.tla", "Trace_ChanParser.cfg", tr, "chan-trace-rejected", "parser/parser.go")
        ctx.add("evaluations", res["runs"])
        ctx.cov["race_detector_runs"] = res["runs"]
    if ctx.tier == "thorough":
        vlib.vacuity_check(ctx, "ChanParser.tla", "MC_ChanParser.cfg", expect_zero=('ResendErr', 'PResendTaken'))
    return vlib.finish(
        ctx, "model_checking",
        rule="ChanParser.tla: every scenario of <= 4 callback events x {nil, callback error, read error} x {stream, file, unreadable path} x "
             "{stop at first error, drain until Done}, every interleaving of the two processes (safety: SeenIsPrefixOfRecords, EachErrorOnce, "
             "ConsumerResult; liveness under weak fairness: consumer terminates, producer exits after drain); real ParseStream/ParseFile runs "
             "with scheduling jitter on both sides recorded as traces and validated (producer steps are silent); non-trivial = run with an error",
        exhaustive=True, extra_cov=dict(spec_variant="repaired"),
        trusted=["jitter (Gosched / sub-millisecond sleeps, 1-24 byte reads) reaches both rendezvous orders; the race detector in the thorough tier",
                 "5 s patience before a producer is recorded as blocked"])


def dup_error(tr):
    for i, e in enumerate(tr):
        if e["ev"] == "Recv" and e["ch"] == "Errors" and tr[0]["policy"] == "drain":
            tr.insert(i, dict(e))
            return tr
    return None


def skip_node(tr):
    for i, e in enumerate(tr):
        if e["ev"] == "Recv" and e["ch"] == "Nodes" and i + 1 < len(tr) and tr[i + 1]["ev"] == "Recv" and tr[i + 1]["ch"] == "Nodes":
            del tr[i]
            return tr
    return None


def replay(ctx, path):
    import json
    print(json.dumps(json.load(open(path)), indent=1)[:4000])
    return 0
