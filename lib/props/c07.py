"""C07 - all reports agree on the same quantities."""
import vlib
from props import common


def run(ctx):
    ctx.build_harness()
    q = ctx.tier == "quick"
    # Reporters.tla: all reporters in lock-step over one log; Agree_* invariants; every reporter bound by the replay
    common.replay_layer(ctx, "MC_Reporters.tla", "MC_Reporters_quick.cfg" if q else "MC_Reporters_thorough.cfg", "reporters-replay", "reporters",
                        workers=10, heap="3g")
    # element-total rows = the matching rows of the resolved-book CSV (every enumerated book of Resolver.tla)
    common.replay_layer(ctx, "MC_Resolver.tla", "MC_Resolver_c01_quick_b.cfg" if q else "MC_Resolver_c01_thorough_a.cfg", "book-reports-replay", "books",
                        args={"stride": 2 if q else 1}, workers=8, shape_filter=lambda sh: "element-total" in sh or "report-fails" in sh)
    # single-element balance tree and grand total (Balance.tla GrandTotalIsTopLevelSum), quantities = balance leaves
    common.replay_layer(ctx, "MC_Balance.tla", "MC_Balance_quick.cfg", "balance-replay", "balance", workers=10, heap="3g",
                        shape_filter=lambda sh: "single" in sh or "default" in sh)
    # stats = numbers of headings, first / last, day distances from --today
    common.replay_layer(ctx, "MC_Walk.tla", "MC_Walk_select.cfg", "stats-replay", "stats", args={"stride": 1}, workers=10, heap="3g")
    # the relations evaluated directly between pairs of real outputs, on random logs and nested books
    res = ctx.drv("agree-direct", outfile=ctx.scratch + "/agree_mm.ndjson", args={"logs": 150 if q else 4000})
    ctx.add("evaluations", res["runs"])
    ctx.add("distinct_nontrivial", res["nontrivial"])
    # random logs of up to 8 days x up to 8 entries (foods repeating within a day) over nested books: the real
    # reporters' per-day chunks validated step by step against Trace_Reporters.tla
    common.trace_layer(ctx, "reporters-trace", "Trace_Reporters.tla", "Trace_Reporters.cfg", "reporters", "reporters-trace-rejected",
                       {"logs": 150 if q else 4000}, "cmd/hranoprovod-cli")
    return vlib.finish(
        ctx, "model_checking",
        rule="Reporters.tla runs register, csv log, single element, single food, totals, quantity, element-by-food, unresolved and the balance "
             "grand total in lock-step over every enumerated log; invariants Agree_TotalsVsRegister, Agree_SingleVsTotals (incl. the balance grand "
             "total), Agree_QuantityVsCsvLog, Agree_Unresolved, Agree_ByFood; every one of these reporters is bound to the code by the replay, so "
             "the relations hold between the real reports; element-total vs resolved CSV on every enumerated book; stats on every enumerated "
             "log; and the relations are also evaluated directly on pairs of real outputs for random logs over nested books.  Non-trivial = >= 2 entries",
        exhaustive=True, extra_cov=dict(),
        trusted=["row parsers of each report shape"])


def replay(ctx, path):
    import json
    print(json.dumps(json.load(open(path)), indent=1)[:5000])
    return 0
