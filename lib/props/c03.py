"""C03 - the balance tree conserves logged quantities in every display mode."""
import vlib
from props import common


def run(ctx):
    ctx.build_harness()
    q = ctx.tier == "quick"
    common.replay_layer(ctx, "MC_Balance.tla", "MC_Balance_quick.cfg" if q else "MC_Balance_thorough.cfg", "balance-replay", "balance",
                        workers=10, heap="3g" if q else "6g")
    common.replay_layer(ctx, "MC_Balance.tla", "MC_Balance_odd.cfg", "balance-replay", "balanceodd", workers=10, heap="3g")
    if ctx.tier == "thorough":
        vlib.vacuity_check(ctx, "MC_Balance.tla", "MC_Balance_quick.cfg", expect_zero=())
    return vlib.finish(
        ctx, "model_checking",
        rule="Balance.tla: every log of <= 3 (thorough: 4) entries over all 14 names of depth <= 3 on 2 segments (shared prefixes, name-prefix-of-name "
             "cases, repeats), amounts distinct powers of two with one negative, two days; invariants EachPathOnce, SiblingsSorted, "
             "ParentIsOwnPlusChildren, GrandTotalIsTopLevelSum, ModesAgreeOnLeaves (prefix-free logs), NoBranchDropped; every terminal state "
             "is rendered to files and run through bal, bal -c, bal --collapse-last and the three -s variants; rows (amount, indent, label) "
             "and the grand total are compared; non-trivial = >= 2 entries",
        exhaustive=True, extra_cov=dict(spec_variant="repaired"),
        trusted=["parseBalance (amount | indent | label rows)", "dyadic units"])


def replay(ctx, path):
    import json
    print(json.dumps(json.load(open(path)), indent=1)[:5000])
    return 0
