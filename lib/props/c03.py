"""C03 - the balance tree conserves logged quantities in every display mode."""
import vlib
from props import common


def run(ctx):
    ctx.build_harness()
    q = ctx.tier == "quick"
    common.replay_layer(ctx, "MC_Balance.tla", "MC_Balance_quick.cfg" if q else "MC_Balance_thorough.cfg", "balance-replay", "balance",
                        workers=10, heap="3g" if q else "6g")
    if not q:
        common.replay_layer(ctx, "MC_Balance.tla", "MC_Balance_seg3.cfg", "balance-replay", "balanceseg3", workers=12, heap="6g", timeout=3000)
    common.replay_layer(ctx, "MC_Balance.tla", "MC_Balance_odd.cfg", "balance-replay", "balanceodd", workers=10, heap="3g")
    # beyond the bound: random logs of 4..14 entries, the real rows validated against Balance.tla by TLC
    common.trace_layer(ctx, "balance-trace", "Trace_Balance.tla", "Trace_Balance.cfg", "balance", "balance-trace-rejected",
                       {"logs": 150 if q else 3000}, "cmd/hranoprovod-cli/internal/balance", selftests=[("row-dropped", drop_bal_row), ("amount-changed", change_amount)])
    if ctx.tier == "thorough":
        vlib.vacuity_check(ctx, "MC_Balance.tla", "MC_Balance_quick.cfg", expect_zero=())
    return vlib.finish(
        ctx, "model_checking",
        rule="Balance.tla: every log of <= 3 (thorough: 4) entries over all 14 names of depth <= 3 on 2 segments (shared prefixes, name-prefix-of-name "
             "cases, repeats), amounts distinct powers of two with one negative, two days; invariants EachPathOnce, SiblingsSorted, "
             "ParentIsOwnPlusChildren, GrandTotalIsTopLevelSum, ModesAgreeOnLeaves (prefix-free logs), NoBranchDropped; every terminal state "
             "is rendered to files and run through bal, bal -c, bal --collapse-last and the three -s variants; rows (amount, indent, label) "
             "and the grand total are compared; beyond the bound, random logs of 4..14 entries over 4 segments and depth 4 (half of them prefix-free) are run through `bal` after each day and in all six shapes and the rows validated by TLC against Trace_Balance.tla; non-trivial = >= 2 entries",
        exhaustive=True, extra_cov=dict(spec_variant="repaired"),
        trusted=["parseBalance (amount | indent | label rows)", "dyadic units"])


def drop_bal_row(tr):
    for e in tr:
        if e.get("ev") == "Flush" and len(e["default"]) >= 2:
            del e["default"][-1]
            return tr
    return None


def change_amount(tr):
    for e in tr:
        if e.get("ev") == "Flush" and e["collapse"]:
            e["collapse"][0]["val"] += 1
            return tr
    return None


def replay(ctx, path):
    import json
    print(json.dumps(json.load(open(path)), indent=1)[:5000])
    return 0
