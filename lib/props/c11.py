"""C11 - the depth limit rejects cycles, accepts legitimate nesting, independent of order."""
import os
import vlib

QUICK = ["MC_Resolver_c11_quick_a.cfg", "MC_Resolver_c11_quick_chain.cfg", "MC_Resolver_c11_thorough_chain.cfg"]
THOROUGH = QUICK + ["MC_Resolver_c11_thorough_b.cfg"]


def run(ctx):
    ctx.build_harness()
    cases = os.path.join(ctx.scratch, "resolver_cases.ndjson")
    total = 0
    for cfg in (QUICK if ctx.tier == "quick" else THOROUGH):
        r = ctx.tlc_must_pass("MC_Resolver.tla", cfg, dump_path=cases, timeout=1500, workers=8)
        total += r["dumped"]
    ctx.tlc_must_pass("MC_Resolver.tla", "MC_Resolver_live.cfg", timeout=600, workers=8, label="liveness: Terminates")
    if total == 0:
        raise vlib.Infra("TLC enumerated no terminal state")
    mm = os.path.join(ctx.scratch, "resolver_mm.ndjson")
    res = ctx.drv("resolver-replay", infile=cases, outfile=mm, args={"tries": 64, "reps": 12 if ctx.tier == "quick" else 40})
    if res["cases"] != total:
        raise vlib.Infra("harness replayed %d of %d cases" % (res["cases"], total))
    # every command that resolves the book honours the limit alike: chains around every limit 1..12 and all small books,
    # written as files and run through the nine resolving command shapes with --maxdepth N
    from props import common
    common.replay_layer(ctx, "MC_Resolver.tla", "MC_Resolver_c11_thorough_chain.cfg", "book-reports-replay", "chaincmds", args={"stride": 3 if ctx.tier == "quick" else 1, "allcmds": 1},
                        workers=8, shape_filter=lambda sh: sh in ("resolver-status", "cli-panic", "report-fails"))
    common.replay_layer(ctx, "MC_Resolver.tla", "MC_Resolver_c11_quick_a.cfg", "book-reports-replay", "bookcmds", args={"stride": 25 if ctx.tier == "quick" else 4, "allcmds": 1},
                        workers=8, shape_filter=lambda sh: sh in ("resolver-status", "cli-panic", "report-fails"))
    # direction (b): executions of the real resolver on random books far beyond the exhaustive bound,
    # recorded (Init, Visit*, Exit) and validated by TLC against Trace_Resolver.tla
    tr = os.path.join(ctx.scratch, "resolver_trace.ndjson")
    mm2 = os.path.join(ctx.scratch, "resolver_trace_mm.ndjson")
    nb = 400 if ctx.tier == "quick" else 6000
    res2 = ctx.drv("resolver-trace", outfile=mm2, tracefile=tr, args={"books": nb})
    vlib.validate_traces(ctx, "Trace_Resolver.tla", "Trace_Resolver.cfg", tr, "resolver-trace-rejected", "resolver/resolver.go")
    vlib.binding_selftest(ctx, "Trace_Resolver.tla", "Trace_Resolver.cfg", tr, [("amount-off-by-one", corrupt_amount), ("visit-dropped", drop_visit)])
    ctx.add("evaluations", res2["runs"])
    ctx.add("distinct_nontrivial", res2["nontrivial"])
    ctx.add("evaluations", res["runs"])
    ctx.add("distinct_nontrivial", res["nontrivial"])
    ctx.add("traces_validated_against_impl", res["cases"])
    for s in res.get("samples", []):
        ctx.sample(s)
    if ctx.tier == "thorough":
        vlib.vacuity_check(ctx, "MC_Resolver.tla", "MC_Resolver_c11_quick_chain.cfg", expect_zero=())
    return vlib.finish(
        ctx, "model_checking",
        rule="TLC enumerates every book (3 recipes x <= 2 ingredients, cycles included) x limits 1..4 x every visiting order, and the "
             "chain family (chains of 0..L recipes ending in a basic element or in a cycle) x limits; invariant DepthErrorIffHeight and "
             "liveness Terminates; every terminal state is replayed through resolver.Resolve (order forced for <= 8 recipes, shuffled "
             "otherwise) and Resolver.Resolve; non-trivial = a recipe referencing another defined recipe or with >= 2 ingredients",
        exhaustive=True,
        extra_cov=dict(replay=res.get("extra", {}), spec_variant="repaired"),
        trusted=["harness/verifdrv/resolver.go (concretisation, forcing of the visiting order through insertion order, observed via VerifVisit)"])


def corrupt_amount(tr):
    for e in tr:
        if e["ev"] == "Exit" and e["status"] == "ok":
            for r in e["db"]:
                if r[1]:
                    r[1][0][1] += 1
                    return tr
    return None


def drop_visit(tr):
    for i, e in enumerate(tr):
        if e["ev"] == "Visit" and tr[-1]["status"] == "ok":
            del tr[i]
            return tr
    return None


def replay(ctx, path):
    import props.c01
    return props.c01.replay(ctx, path)
