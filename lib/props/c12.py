"""C12 - reports compose over the log history."""
import os
import vlib
from props import common


def run(ctx):
    ctx.build_harness()
    q = ctx.tier == "quick"
    cfg = "MC_Reporters_quick.cfg" if q else "MC_Reporters_thorough.cfg"
    # TLC: DayOutputLocal (action property) and PeriodAdditive on every enumerated history; the operational reporters are bound by the replay
    common.replay_layer(ctx, "MC_Reporters.tla", cfg, "compose-replay", "compose", args={"stride": 4 if q else 1}, workers=10, heap="3g")
    # across processes: one process for the concatenated log against one process per block (the real binary)
    rb = ctx.drv("compose-binary", outfile=os.path.join(ctx.scratch, "compose_bin_mm.ndjson"), env_extra={"VERIF_BIN": ctx.build_binary()})
    ctx.add("evaluations", rb["runs"])
    # random longer histories: Day events validated by TLC step by step
    common.trace_layer(ctx, "reporters-trace", "Trace_Reporters.tla", "Trace_Reporters.cfg", "reporters", "reporters-trace-rejected",
                       {"logs": 120 if q else 3000}, "cmd/hranoprovod-cli", selftests=[("day-chunk-row-dropped", drop_row)])
    return vlib.finish(
        ctx, "model_checking",
        rule="Reporters.tla: action property DayOutputLocal (a Process step appends a chunk that depends on that day only and rewrites nothing) and "
             "invariant PeriodAdditive on every enumerated history; on the real commands the days of every enumerated log are appended as blocks "
             "(with a repeated date, an empty day, a day that differs only in order) and for every split point 9 per-day report shapes must be the "
             "byte concatenation of the parts' reports and 4 period reports the element-wise sum; random histories of up to 8 blocks as Day traces; "
             "non-trivial = every replayed case",
        exhaustive=True, extra_cov=dict(),
        trusted=["row parsers for the period reports"])


def drop_row(tr):
    for e in tr:
        if e["ev"] == "Day" and e["csv"]:
            e["csv"].pop()
            return tr
    return None


def replay(ctx, path):
    import json
    print(json.dumps(json.load(open(path)), indent=1)[:5000])
    return 0
