"""C17 - a report that cannot be written completely yields a non-zero exit."""
import vlib
from props import common


def run(ctx):
    ctx.build_harness()
    q = ctx.tier == "quick"
    ctx.tlc_must_pass("Sink.tla", "MC_Sink.cfg" if q else "MC_Sink_thorough.cfg", workers=8, label="Sink: every failure offset x buffer states (+ refinement of the sink interface)")
    ctx.tlc_must_pass("Sink.tla", "MC_Sink_live.cfg", workers=4, label="Sink: Terminates")
    # fault enumeration: every command shape x sink failing from every byte offset; traces validated at the sink interface
    res = common.trace_layer(ctx, "sink-enum", "Trace_Sink.tla", "Trace_Sink.cfg", "sink", "sink-trace-rejected",
                             {"days": 120 if q else 600}, "cmd/hranoprovod-cli", selftests=[("failed-write-then-success", fail_to_ok)])
    ctx.cov["fault_offsets"] = res.get("extra", {}).get("fault_offsets")
    # Cli.tla LostOutputFails: every command shape x problem placement with a failing sink, in-process and /dev/full on the binary
    common.cli_layer(ctx, shape_filter=lambda sh: "write" in sh)
    # closed pipe on the real binary
    res2 = ctx.drv("closed-pipe", outfile=ctx.scratch + "/pipe_mm.ndjson", env_extra={"VERIF_BIN": ctx.build_binary()})
    ctx.add("evaluations", res2["runs"])
    if ctx.tier == "thorough":
        vlib.vacuity_check(ctx, "Sink.tla", "MC_Sink.cfg", expect_zero=())
    return vlib.finish(
        ctx, "fault_enumeration",
        rule="Sink.tla (bufio buffer of 4 over a sink failing from every offset, reporters that check / ignore write errors, both flush "
             "disciplines) checked by TLC; on the real code every command shape is run with the sink failing from byte k for every k of a small "
             "report and a boundary-heavy sample of a multi-buffer report (partial and all-or-nothing writes), each run recorded and validated "
             "against the sink-interface projection; /dev/full and a closed pipe on the binary.  Non-trivial = k < report length",
        exhaustive=True, extra_cov=dict(spec_variant="repaired"),
        trusted=["failWriter (accepts k bytes, then fails; its behaviour is itself checked by the trace spec)"])


def fail_to_ok(tr):
    if any(e["ev"] == "SinkWrite" and not e["ok"] for e in tr) and tr[-1]["ev"] == "Exit":
        tr[-1]["status"] = 0
        return tr
    return None


def replay(ctx, path):
    import json
    print(json.dumps(json.load(open(path)), indent=1)[:4000])
    return 0
