"""C08 - no input makes a command crash or hang."""
import json
import os
import re
import subprocess
import vlib
from props import common


def run(ctx):
    ctx.build_harness()
    q = ctx.tier == "quick"
    # totality and termination of the specification's machines (TLC: deadlock freedom + liveness)
    ctx.tlc_must_pass("MC_Parser.tla", "MC_Parser_live.cfg", workers=10, heap="3g", label="Parser: Terminates, no deadlock (all kinds x policies x reader faults)")
    ctx.tlc_must_pass("MC_Resolver.tla", "MC_Resolver_live.cfg", workers=8, label="Resolver: Terminates (cycles included)")
    # parser level: every file over all line kinds x policies, replayed with recover
    common.replay_layer(ctx, "MC_Parser.tla", "MC_Parser_bad_quick.cfg" if q else "MC_Parser_bad_thorough.cfg", "parser-replay", "parser",
                        args={"variants": 1}, heap="3g" if q else "6g", shape_filter=lambda sh: "panic" in sh or "hang" in sh)
    # command level: Cli.tla NoPanic + Termination; every terminal state on the real commands and the binary
    common.cli_layer(ctx, shape_filter=lambda sh: "panic" in sh or "hang" in sh)
    # every enumerated file (<= 3 lines over 11 kinds) as log and as book through every command / flag shape
    try:
        common.replay_layer(ctx, "MC_Parser.tla", "MC_Parser_c08_quick.cfg" if q else "MC_Parser_lint_quick.cfg", "crash-family", "family", heap="3g")
    except vlib.Infra as e:
        if not getattr(e, "fatal", False):
            raise
        ctx.violation("process-killed-by-fatal-error", "a command kills the process on an enumerated small file (stack overflow or fatal runtime error): " + str(e)[:1500], {"stderr": str(e)[:6000]})
    # the same shapes on the real binary (its own file opening and option loading)
    resb = ctx.drv("crash-binary", outfile=os.path.join(ctx.scratch, "crashbin_mm.ndjson"), args={"inputs": 6 if q else 60}, env_extra={"VERIF_BIN": ctx.build_binary()})
    ctx.add("evaluations", resb["runs"])
    # grammar-aware mutations and random bytes (exploration); a fatal crash of the driver process is pinned down
    n = 250 if q else 6000
    fuzz(ctx, n)
    if ctx.tier == "thorough":
        vlib.vacuity_check(ctx, "MC_Cli.tla", "MC_Cli_quick.cfg", expect_zero=())
    return vlib.finish(
        ctx, "model_checking",
        rule="TLC: deadlock freedom and termination of Parser.tla (every file <= 3-4 lines over 11 line kinds x 4 callback policies x "
             "reader faults), Resolver.tla (cyclic books) and Cli.tla (NoPanic, every command shape); every enumerated file is run as log "
             "and as book through 42 command/flag shapes in-process with recover and a 20 s deadline, and the Cli states on the binary; "
             "plus seeded grammar-aware mutations and random bytes (exploration part).  Non-trivial = every case (each is a distinct input)",
        exhaustive=False, extra_cov=dict(spec_variant="repaired", exploration_part="crash-fuzz: mutations and random bytes are sampling, not enumeration"),
        trusted=["recover() in the driver catches panics; fatal runtime errors kill the driver process and are pinned down by a second, synchronous pass",
                 "20 s deadline per command run (operations take microseconds)"])


def fuzz(ctx, n):
    mm = os.path.join(ctx.scratch, "fuzz_mm.ndjson")
    try:
        res = ctx.drv("crash-fuzz", outfile=mm, args={"start": 0, "count": n}, timeout=3000)
        ctx.add("evaluations", res["runs"])
        ctx.add("distinct_nontrivial", res["nontrivial"])
        for s in res.get("samples", [])[:1]:
            ctx.sample(s)
        return
    except vlib.Infra as e:
        msg = str(e)
        if not getattr(e, "fatal", False):
            raise
        prog = getattr(e, "progress", [])
        start = prog[-1] if prog else 0
    # the driver process itself died: pin the input down with a synchronous pass over the last block
    try:
        ctx.drv("crash-fuzz", outfile=mm, args={"start": start, "count": 200, "sync": 1}, timeout=3000)
        raise vlib.Infra("driver crashed once but not when re-run: " + msg[-1500:])
    except vlib.Infra as e2:
        cur = os.path.join(ctx.scratch, "current_input.json")
        case = json.load(open(cur)) if os.path.exists(cur) else {}
        tail = str(e2)[:1500]
        ctx.violation("process-killed-by-fatal-error", "a command kills the process (stack overflow or fatal runtime error): " + tail, case)


def replay(ctx, path):
    print(json.dumps(json.load(open(path)), indent=1)[:4000])
    return 0
