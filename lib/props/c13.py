"""C13 - CSV exports are lossless and machine-readable."""
import vlib
from props import common

CSV = ("csv-", "report-fails", "cli-panic")


def run(ctx):
    ctx.build_harness()
    q = ctx.tier == "quick"
    # the log export: Reporters.tla CsvRows_Log, every enumerated log through `csv log` and the strict reader
    common.replay_layer(ctx, "MC_Reporters.tla", "MC_Reporters_quick.cfg" if q else "MC_Reporters_thorough.cfg", "reporters-replay", "reporters",
                        workers=10, heap="3g", shape_filter=lambda sh: sh.startswith(CSV))
    # Csv.tla: writer + RFC 4180 reader automaton, Lossless for every small record over an alphabet with every special character ...
    for cfg in (["MC_Csv_quick.cfg", "MC_Csv_quick2.cfg"] if q else ["MC_Csv_quick.cfg", "MC_Csv_quick2.cfg", "MC_Csv_thorough.cfg", "MC_Csv_thorough3.cfg"]):
        ctx.tlc_must_pass("Csv.tla", cfg, workers=8, heap="4g", timeout=1800)
    # ... and the bytes of the real exports run through that automaton by TLC (Trace_Csv.tla)
    import os
    tr = os.path.join(ctx.scratch, "csv_trace.ndjson")
    r2 = ctx.drv("csv-trace", infile=os.path.join(ctx.scratch, "reporters_cases.ndjson"), outfile=os.path.join(ctx.scratch, "csv_trace_mm.ndjson"), tracefile=tr,
                 args={"stride": 12 if q else 2})
    vlib.validate_traces(ctx, "Trace_Csv.tla", "Trace_Csv.cfg", tr, "csv-trace-rejected", "cmd/hranoprovod-cli/internal/csv", timeout=2400, heap="4g")
    vlib.binding_selftest(ctx, "Trace_Csv.tla", "Trace_Csv.cfg", tr, [("quote-removed", drop_quote), ("row-removed", drop_last_row), ("name-changed", change_name)])
    ctx.add("evaluations", r2["runs"])
    ctx.add("distinct_nontrivial", r2["nontrivial"])
    if not q:
        vlib.vacuity_check(ctx, "Csv.tla", "MC_Csv_quick.cfg")
    # across processes: the rows of a concatenated log = the rows of its blocks (a date one year later on the same day of the year, long days)
    rb = ctx.drv("compose-binary", outfile=os.path.join(ctx.scratch, "compose_bin_mm.ndjson"), env_extra={"VERIF_BIN": ctx.build_binary()},
                 shape_filter=lambda sh: sh in ("per-day-report-not-concatenation", "report-fails"))
    ctx.add("evaluations", rb["runs"])
    # the two book exports: every enumerated book of Resolver.tla through `csv database` / `csv database-resolved`
    for cfg in (["MC_Resolver_records.cfg", "MC_Resolver_c01_quick_a.cfg", "MC_Resolver_c01_quick_b.cfg"] if q else ["MC_Resolver_records.cfg", "MC_Resolver_c01_quick_a.cfg", "MC_Resolver_c01_quick_b.cfg", "MC_Resolver_c01_thorough_a.cfg"]):
        btr = os.path.join(ctx.scratch, "csv_books_trace_%s.ndjson" % cfg[12:-4])
        common.replay_layer(ctx, "MC_Resolver.tla", cfg, "book-reports-replay", "books_" + cfg[12:-4].replace("c01_", ""), args={"stride": 3 if q else 1, "trace_every": 4 if q else 2}, workers=8,
                            shape_filter=lambda sh: sh.startswith(CSV + ("resolver-status",)), tracefile=btr)
        # the bytes of the book exports of nested books through the automaton of Csv.tla
        if os.path.exists(btr) and os.path.getsize(btr) > 0:
            vlib.validate_traces(ctx, "Trace_Csv.tla", "Trace_Csv.cfg", btr, "csv-trace-rejected", "cmd/hranoprovod-cli/internal/csv", timeout=2400, heap="4g")
    # decimal data: amounts within half a unit of the last printed digit of the true value
    res = ctx.drv("csv-decimal", outfile=ctx.scratch + "/dec_mm.ndjson", args={"files": 300 if q else 5000})
    ctx.add("evaluations", res["runs"])
    ctx.add("distinct_nontrivial", res["nontrivial"])
    return vlib.finish(
        ctx, "model_checking",
        rule="Csv.tla: writer as configured by the exports and an independent RFC 4180 reader automaton, Lossless / NeverRejected / FoldAgrees on every small record over {a , \" blank LF CR e-acute}; the bytes of the real exports (code points) are run through that automaton by TLC (Trace_Csv.tla: valid, exactly the wanted rows, ISO dates, fixed precision, resolved book strictly sorted).  Reporters.tla CsvRows_Log (one row per (day, distinct food) in file order, merged quantity) on every enumerated log; Resolver.tla "
             "terminal states (raw book: one row per entry in file order; resolved book: rows sorted by recipe then element) on every enumerated "
             "book; names from a pool with commas, double quotes, tabs, non-ASCII text; every export is read back with an independent strict RFC "
             "4180 reader.  Decimal quantities (tiny, large, ties at the last digit): |printed - exact| <= half a unit, exact = rational sum "
             "of the file's literals.  Non-trivial = >= 2 rows",
        exhaustive=True, extra_cov=dict(byte_grammar="Csv.tla: RFC 4180 reader automaton; TLC proves Lossless/NeverRejected for the modelled writer on every small record and runs the automaton over the bytes of the real exports (Trace_Csv.tla)"),
        trusted=["parseCSVStrict (hand-written RFC 4180 reader, independent of encoding/csv)", "math/big rationals for the half-unit relation"])


def drop_quote(tr):
    raw = tr[0]["raw"]
    if 34 in raw:
        raw.remove(34)
        return tr
    return None


def drop_last_row(tr):
    raw = tr[0]["raw"]
    if raw.count(10) >= 2 and 34 not in raw:
        cut = len(raw) - 2
        while raw[cut] != 10:
            cut -= 1
        del raw[cut + 1:]
        return tr
    return None


def change_name(tr):
    if tr[1]["want"]:
        tr[1]["want"][0][1].append(120)
        return tr
    return None


def replay(ctx, path):
    import json
    print(json.dumps(json.load(open(path)), indent=1)[:5000])
    return 0
