"""C13 - CSV exports are lossless and machine-readable."""
import vlib
from props import common

CSV = ("csv-", "report-fails", "cli-panic")


def run(ctx):
    ctx.build_harness()
    q = ctx.tier == "quick"
    # the log export: Reporters.tla CsvRows_Log, every enumerated log through `csv log` and the strict reader
    common.replay_layer(ctx, "MC_Reporters.tla", "MC_Reporters_quick.cfg" if q else "MC_Reporters_thorough.cfg", "reporters-replay", "reporters",
                        workers=10, heap="3g", shape_filter=lambda sh: sh.startswith(CSV))
    # the two book exports: every enumerated book of Resolver.tla through `csv database` / `csv database-resolved`
    for cfg in (["MC_Resolver_records.cfg", "MC_Resolver_c01_quick_a.cfg", "MC_Resolver_c01_quick_b.cfg"] if q else ["MC_Resolver_records.cfg", "MC_Resolver_c01_quick_a.cfg", "MC_Resolver_c01_quick_b.cfg", "MC_Resolver_c01_thorough_a.cfg"]):
        common.replay_layer(ctx, "MC_Resolver.tla", cfg, "book-reports-replay", "books_" + cfg[12:-4].replace("c01_", ""), args={"stride": 3 if q else 1}, workers=8,
                            shape_filter=lambda sh: sh.startswith(CSV + ("resolver-status",)))
    # decimal data: amounts within half a unit of the last printed digit of the true value
    res = ctx.drv("csv-decimal", outfile=ctx.scratch + "/dec_mm.ndjson", args={"files": 300 if q else 5000})
    ctx.add("evaluations", res["runs"])
    ctx.add("distinct_nontrivial", res["nontrivial"])
    return vlib.finish(
        ctx, "model_checking",
        rule="Reporters.tla CsvRows_Log (one row per (day, distinct food) in file order, merged quantity) on every enumerated log; Resolver.tla "
             "terminal states (raw book: one row per entry in file order; resolved book: rows sorted by recipe then element) on every enumerated "
             "book; names from a pool with commas, double quotes, tabs, non-ASCII text; every export is read back with an independent strict RFC "
             "4180 reader.  Decimal quantities (tiny, large, ties at the last digit): |printed - exact| <= half a unit, exact = rational sum "
             "of the file's literals.  Non-trivial = >= 2 rows",
        exhaustive=True, extra_cov=dict(not_decided_in_tla="the RFC 4180 byte grammar itself: decided by the strict reader at the binding"),
        trusted=["parseCSVStrict (hand-written RFC 4180 reader, independent of encoding/csv)", "math/big rationals for the half-unit relation"])


def replay(ctx, path):
    import json
    print(json.dumps(json.load(open(path)), indent=1)[:5000])
    return 0
