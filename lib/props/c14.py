"""C14 - print emits a normal form that reads back to the same log."""
import vlib
from props import common


def run(ctx):
    ctx.build_harness()
    q = ctx.tier == "quick"
    # character level: what print writes for an entry / a documented note lexes back to the same tokens (Lexer.tla)
    ctx.tlc_must_pass("MC_Lexer.tla", "MC_Lexer_quick6.cfg" if q else "MC_Lexer_thorough7.cfg", workers=8 if q else 14, heap="2g" if q else "4g",
                      timeout=2400, label="Lexer: PrintFormReadsBack, NoteFixpoint")
    common.replay_layer(ctx, "MC_Reporters.tla", "MC_Reporters_quick.cfg" if q else "MC_Reporters_thorough.cfg", "print-replay", "print",
                        args={"stride": 1}, workers=10, heap="3g", env_extra={"VERIF_BIN": ctx.build_binary()})
    # days of up to 14 lines in which foods repeat (the first food again at the end): merged once, as Trace_Reporters.tla says
    common.trace_layer(ctx, "reporters-trace", "Trace_Reporters.tla", "Trace_Reporters.cfg", "reporters", "reporters-trace-rejected",
                       {"logs": 150 if q else 3000}, "node.go")
    # decimal quantities: rounded to two decimals on the way through print
    res = ctx.drv("print-decimal", outfile=ctx.scratch + "/pd_mm.ndjson", args={"files": 300 if q else 5000})
    ctx.add("evaluations", res["runs"])
    ctx.add("distinct_nontrivial", res["nontrivial"])
    return vlib.finish(
        ctx, "model_checking",
        rule="Lexer.tla: for every name the tokenizer can produce from a line up to the bound, the line print writes for it lexes back to the same "
             "name, and every note of the documented forms is a fixpoint of print -> parse.  Reporters.tla: every enumerated log (duplicates within a "
             "day, negative and zero quantities), rendered in random layouts with documented notes under 6 date formats: print; the printed log must be "
             "readable under the same options, print again byte-identically, and read back (csv log, the parser) to the merged rows the specification "
             "predicts, the notes and the headings; decimal quantities are checked to come back rounded to two decimals.  Non-trivial = >= 2 rows",
        exhaustive=True, extra_cov=dict(),
        trusted=["the parser and csv log as readers of the printed log (themselves bound by C04 / C13)"])


def replay(ctx, path):
    import json
    print(json.dumps(json.load(open(path)), indent=1)[:5000])
    return 0
