"""C10 - unreadable input is an error, never a silently shortened report."""
import vlib
from props import common


def run(ctx):
    ctx.build_harness()
    q = ctx.tier == "quick"
    # Parser.tla with reader faults: the read fails before / inside every line
    common.replay_layer(ctx, "MC_Parser.tla", "MC_Parser_fault_quick.cfg" if q else "MC_Parser_fault_thorough.cfg", "parser-replay", "parserfault",
                        args={"variants": 2 if q else 3}, heap="3g" if q else "6g")
    # fault enumeration on the real code: every byte offset of every small file
    res = ctx.drv("read-fault-enum", outfile=ctx.scratch + "/rf_mm.ndjson", args={"files": 400 if q else 6000})
    ctx.add("evaluations", res["runs"])
    ctx.add("distinct_nontrivial", res["nontrivial"])
    ctx.add("fault_offsets", res["runs"])
    for s in res.get("samples", [])[:2]:
        ctx.sample(s)
    # command level: every command shape x unreadable / missing book or log (failing reader, over-long line, binary)
    common.cli_layer(ctx, shape_filter=lambda sh: "unreadable" in sh or "missing" in sh)
    # random long files with the read failing at a random line: traces validated by TLC
    common.trace_layer(ctx, "parser-trace", "Trace_Parser.tla", "Trace_Parser.cfg", "parserfault", "parser-trace-rejected",
                       {"files": 200 if q else 4000, "bad": 30, "faults": 1}, "parser/parser.go",
                       selftests=[("ioerr-turned-into-success", io_to_nil)])
    # the log / the book through a named pipe (a file of unknown size): the binary prints what it prints for a regular file
    rp = ctx.drv("pipe-input", outfile=ctx.scratch + "/pipe_mm.ndjson", env_extra={"VERIF_BIN": ctx.build_binary()})
    ctx.add("evaluations", rp["runs"])
    # the channel API over the same parser (a third of the inputs end in a read failure; Parser values used again):
    # an input that cannot be read completely must reach the consumer as an error, never as completion
    common.trace_layer(ctx, "chan-trace", "Trace_ChanParser.tla", "Trace_ChanParser.cfg", "chan", "chan-trace-rejected", {"runs": 300 if q else 5000}, "parser/parser.go")
    if ctx.tier == "thorough":
        vlib.vacuity_check(ctx, "MC_Parser.tla", "MC_Parser_fault_quick.cfg", expect_zero=('SilentTruncate',))
    return vlib.finish(
        ctx, "fault_enumeration",
        rule="Parser.tla with a failing reader: every file of <= 3 abstract lines x the read failing before or inside every line (a "
             "truncated line may classify as anything) x 2 callback policies, invariants ScanFailureIsError / SuccessMeansAllLinesSeen, "
             "replayed on the real parser with 3 styles of failing reader; every byte offset of generated small files; Cli.tla "
             "unreadable/missing placements x every command shape in-process (failing reader, 70 000-byte line) and on the binary; "
             "non-trivial = the reader fails before the end of the data",
        exhaustive=True, extra_cov=dict(spec_variant="repaired"),
        trusted=["faultReader (three ways an io.Reader reports failure)", "bufio.Scanner semantics: the partial last line is delivered as a token"])


def io_to_nil(tr):
    if tr[-1]["ev"] == "Exit" and tr[-1]["ret"]["t"] == "ioErr":
        tr[-1]["ret"] = {"t": "nil"}
        return tr
    return None


def replay(ctx, path):
    import json
    print(json.dumps(json.load(open(path)), indent=1)[:4000])
    return 0
