"""C04 - well-formed files parse to exactly their records, entries and values."""
import os
import vlib


FIXTURES = ["examples/food.yaml", "examples/log.yaml", "cmd/hranoprovod-cli/internal/testutils/testAssets/food.yaml",
            "cmd/hranoprovod-cli/internal/testutils/testAssets/log.yaml", "cmd/hranoprovod-cli/internal/testutils/testAssets/print-log.yaml",
            "README.md", "docs/usage.md", "docs/index.md", "documentation/usage.md"]


def fixture_lines():
    """The distinct ASCII lines of the repository's example files as a TLA+ set of character sequences (a generated
    module: INIT line \\in FixtureLines, no step).  '"' is written "q" as everywhere in Lexer.tla, so the letter q
    itself and the exponent letters are replaced by another ordinary letter first (the replaced line is what both TLC and the
    parser see)."""
    seen = []
    for f in FIXTURES:
        p = os.path.join(vlib.REPO, f)
        if not os.path.exists(p):
            continue
        for ln in open(p, encoding="utf-8", errors="replace").read().split("\n"):
            ln = ln.rstrip("\r")
            if not ln or len(ln) > 90 or any(ord(c) > 126 or (ord(c) < 32 and c != "\t") for c in ln) or "\\" in ln:
                continue
            ln = ln.replace("q", "k").replace("e", "a").replace("E", "A")
            if ln not in seen:
                seen.append(ln)
    seen = seen[:400]

    def tup(ln):
        return "<<" + ", ".join('"%s"' % ("q" if c == '"' else "\\t" if c == "\t" else c) for c in ln) + ">>"
    mod = "---- MODULE MC_LexerFix ----\nEXTENDS Lexer\nFixtureLines == {\n  " + ",\n  ".join(tup(l) for l in seen) + "\n}\nFixInit == line \\in FixtureLines\n====\n"
    cfg = ("CONSTANTS\n  Alphabet = {}\n  MaxLen = 0\n  CC = \"#\"\n  Dump = TRUE\nINIT FixInit\nNEXT Next\n"
           "INVARIANTS GrammarSound NotesNeverEntries MalformedExactly OrphanSilent NameShape PrintFormReadsBack NoteFixpoint DumpInv\nCHECK_DEADLOCK FALSE\n")
    return mod, cfg, len(seen)


def run(ctx):
    ctx.build_harness()
    q = ctx.tier == "quick"
    # --- character level: Lexer.tla, every line up to the bound -------------------------------
    table = os.path.join(ctx.scratch, "lexer_table.ndjson")
    r = ctx.tlc_must_pass("MC_Lexer.tla", "MC_Lexer_quick.cfg", dump_path=table, workers=8, timeout=900)
    ctx.tlc_must_pass("MC_Lexer.tla", "MC_Lexer_quick6.cfg", workers=8, timeout=900)
    if not q:
        ctx.tlc_must_pass("MC_Lexer.tla", "MC_Lexer_thorough7.cfg", workers=14, heap="4g", timeout=1800)
        ctx.tlc_must_pass("MC_Lexer.tla", "MC_Lexer_thorough6d.cfg", dump_path=table, workers=14, heap="4g", timeout=1800)
    ctx.tlc_must_pass("MC_Lexer.tla", "MC_Lexer_zero.cfg", dump_path=table, workers=8, timeout=900)
    # long lines: random walks of the same state machine (TLC -simulate), every prefix classified by Lex and replayed
    ctx.tlc("MC_Lexer.tla", "MC_Lexer_sim.cfg", dump_path=table, workers=1, simulate="num=%d" % (300 if q else 3000), depth=33,
            extra=["-seed", str(ctx.seed)], timeout=1800, label="simulation: random lines of up to 32 characters")
    if not ctx.tlc_runs[-1]["ok"]:
        raise vlib.Infra("TLC simulation of MC_Lexer_sim.cfg failed")
    # the lines of the repository's own example / fixture files and documentation, classified by Lex and replayed
    fx = fixture_lines()
    ctx.tlc_must_pass("MC_LexerFix.tla", "MC_LexerFix.cfg", dump_path=table, workers=4, timeout=900,
                      cwd_files={"MC_LexerFix.tla": fx[0], "MC_LexerFix.cfg": fx[1]}, label="Lex on the %d distinct lines of the repository's example files" % fx[2])
    ctx.cov["fixture_lines_classified"] = fx[2]
    mm = os.path.join(ctx.scratch, "lexer_mm.ndjson")
    res = ctx.drv("lexer-replay", infile=table, outfile=mm)
    # a configured comment character (parser.Config.CommentChar, [ParserConfig] CommentChar of the configuration file)
    table_cc = os.path.join(ctx.scratch, "lexer_table_cc.ndjson")
    ctx.tlc_must_pass("MC_Lexer.tla", "MC_Lexer_cc.cfg", dump_path=table_cc, workers=8, timeout=900)
    res_cc = ctx.drv("lexer-replay", infile=table_cc, outfile=os.path.join(ctx.scratch, "lexer_cc_mm.ndjson"), args={"cc": ";"})
    ctx.add("evaluations", res_cc["runs"])
    ctx.add("evaluations", res["runs"])
    ctx.add("distinct_nontrivial", res["nontrivial"])
    ctx.add("traces_validated_against_impl", res["cases"])
    for s in res.get("samples", [])[:2]:
        ctx.sample(s)
    # --- line level: Parser.tla, every well-formed file up to the bound ----------------------
    cases = os.path.join(ctx.scratch, "parser_cases.ndjson")
    ctx.tlc_must_pass("MC_Parser.tla", "MC_Parser_wf_quick.cfg" if q else "MC_Parser_wf_thorough.cfg", dump_path=cases,
                      workers=10, heap="3g" if q else "6g", timeout=1800)
    mm2 = os.path.join(ctx.scratch, "parser_mm.ndjson")
    res2 = ctx.drv("parser-replay", infile=cases, outfile=mm2, args={"variants": 2 if q else 4})
    ctx.add("evaluations", res2["runs"])
    ctx.add("distinct_nontrivial", res2["nontrivial"])
    ctx.add("traces_validated_against_impl", res2["cases"])
    for s in res2.get("samples", [])[:2]:
        ctx.sample(s)
    # --- direction (b): long random files in mixed layouts, callback traces validated by TLC ----
    tr = os.path.join(ctx.scratch, "parser_trace.ndjson")
    res3 = ctx.drv("parser-trace", outfile=os.path.join(ctx.scratch, "parser_trace_mm.ndjson"), tracefile=tr, args={"files": 150 if q else 3000, "bad": 0})
    vlib.validate_traces(ctx, "Trace_Parser.tla", "Trace_Parser.cfg", tr, "parser-trace-rejected", "parser/parser.go")
    vlib.binding_selftest(ctx, "Trace_Parser.tla", "Trace_Parser.cfg", tr, [("entry-dropped", drop_entry), ("value-changed", change_value)])
    ctx.add("evaluations", res3["runs"])
    ctx.add("distinct_nontrivial", res3["nontrivial"])
    if ctx.tier == "thorough":
        vlib.vacuity_check(ctx, "MC_Parser.tla", "MC_Parser_wf_quick.cfg", expect_zero=('ScanPartial', 'ScanFails', 'ReturnScanError', 'SilentTruncate'))
    return vlib.finish(
        ctx, "model_checking",
        rule="(1) every line of <= 5 characters over an 11-symbol alphabet (and <= 6..8 over 9 symbols for the theorems): TLC checks the "
             "tokenizer transcription against the documented format (GrammarSound, NotesNeverEntries, ...) and prints the table "
             "line -> classification, which is compared with the real parser in 5 contexts (LF/CRLF, with/without final line break, "
             "before any heading); the same for random walks of the line-building state machine to 32 characters over 13 symbols (TLC -simulate) and for the distinct lines of the repository's own example files and documentation; (2) every well-formed file of <= 5 abstract lines over 9 line kinds: TLC checks RecordsExact / "
             "LastRecordKept and each file is rendered in random layout variants and parsed by the real code; (3) long random files, "
             "callback traces validated against Trace_Parser.tla.  Non-trivial = the line is not skipped / the file has an entry",
        exhaustive=True,
        extra_cov=dict(lexer_kinds=res.get("extra", {}).get("kinds"), spec_variant="repaired"),
        trusted=["harness/verifdrv/parser_replay.go concretiser (layout variants of the documented format)",
                 "math/big rational arithmetic as the reference for 'correctly rounded value'"])


def drop_entry(tr):
    for e in tr:
        if e["ev"] == "Node" and e["elements"]:
            e["elements"].pop()
            return tr
    return None


def change_value(tr):
    for e in tr:
        if e["ev"] == "Node" and e["elements"]:
            e["elements"][0][1] += 1
            return tr
    return None


def replay(ctx, path):
    import json
    c = json.load(open(path))
    print(json.dumps(c, indent=1)[:3000])
    return 0
