"""C02 - register reports each day's foods, ingredients and signed totals exactly."""
import os
import vlib
from props import common

REG_SHAPES = ("register-", "report-fails")


def run(ctx):
    ctx.build_harness()
    q = ctx.tier == "quick"
    common.replay_layer(ctx, "MC_Reporters.tla", "MC_Reporters_quick.cfg" if q else "MC_Reporters_thorough.cfg", "reporters-replay", "reporters",
                        workers=10, heap="3g", shape_filter=lambda sh: sh.startswith(REG_SHAPES) or sh.startswith("summary-"))
    if not q:
        common.replay_layer(ctx, "MC_Reporters.tla", "MC_Reporters_thorough4.cfg", "reporters-replay", "reporters4", workers=12, heap="6g", timeout=3000,
                            shape_filter=lambda sh: sh.startswith(REG_SHAPES) or sh.startswith("summary-"))
    # the register under every template x shorten x totals mode x colour: lines and fields validated against Present.tla
    # (a food defined by the book is expanded whatever the presentation switches say)
    cases = os.path.join(ctx.scratch, "reporters_cases.ndjson")
    ptr = os.path.join(ctx.scratch, "present_trace.ndjson")
    rp = ctx.drv("present-trace", infile=cases, outfile=os.path.join(ctx.scratch, "present_trace_mm.ndjson"), tracefile=ptr, args={"stride": 60 if q else 6})
    vlib.validate_traces(ctx, "Trace_Present.tla", "Trace_Present.cfg", ptr, "present-trace-rejected", "cmd/hranoprovod-cli/internal/register", timeout=2400, heap="4g")
    ctx.add("evaluations", rp["runs"])
    # across processes (the real binary): whole log in one process = blocks in separate processes; default = interleaving
    rb = ctx.drv("compose-binary", outfile=os.path.join(ctx.scratch, "compose_bin_mm.ndjson"), env_extra={"VERIF_BIN": ctx.build_binary()})
    ctx.add("evaluations", rb["runs"])
    # random logs of up to 8 days x up to 8 entries (foods repeating within a day) over nested books: the real
    # reporters' per-day chunks validated step by step against Trace_Reporters.tla
    common.trace_layer(ctx, "reporters-trace", "Trace_Reporters.tla", "Trace_Reporters.cfg", "reporters", "reporters-trace-rejected",
                       {"logs": 150 if q else 4000}, "cmd/hranoprovod-cli")
    if ctx.tier == "thorough":
        vlib.vacuity_check(ctx, "MC_Reporters.tla", "MC_Reporters_quick.cfg", expect_zero=())
    return vlib.finish(
        ctx, "model_checking",
        rule="Reporters.tla: every first day of <= 3 entries over 3 foods (one with two elements of opposite sign, one defined empty, one "
             "undefined that is also an element the book produces) x 5 quantities (negative, zero) x second days (repeat, permutation, empty); "
             "invariant RegisterExact (operational chunk = declarative definition) and the action property DayOutputLocal; every terminal state "
             "rendered to files in random layouts and run through reg (default, left-aligned, old reporter) and summary; non-trivial = >= 2 entries",
        exhaustive=True, extra_cov=dict(spec_variant="repaired"),
        trusted=["harness/verifdrv/reports.go row parsers (rows recognised by structure, numbers parsed exactly as thousandths)",
                 "dyadic units: all float arithmetic of the code is exact on the generated values"])


def replay(ctx, path):
    import json
    print(json.dumps(json.load(open(path)), indent=1)[:5000])
    return 0
