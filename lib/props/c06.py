"""C06 - date range selection is exact, inclusive and independent of layout and time zone."""
import vlib
from props import common


def run(ctx):
    ctx.build_harness()
    q = ctx.tier == "quick"
    env = {"VERIF_BIN": ctx.build_binary()}
    common.replay_layer(ctx, "MC_Walk.tla", "MC_Walk_zones.cfg", "walk-replay", "walkzones", args={"binary_every": 50}, workers=8, heap="2g", env_extra=env)
    common.replay_layer(ctx, "MC_Walk.tla", "MC_Walk_select.cfg", "walk-replay", "walksel", args={"binary_every": 400 if q else 40, "stride": 2 if q else 1}, workers=10, heap="3g", env_extra=env)
    common.replay_layer(ctx, "MC_Walk.tla", "MC_Walk_positions.cfg", "walk-replay", "walkpos", args={"binary_every": 900 if q else 60, "stride": 5 if q else 1, "dst": 1}, workers=10, heap="3g", env_extra=env)
    common.replay_layer(ctx, "MC_Walk.tla", "MC_Walk_layouts.cfg", "walk-layouts", "walklay", args={"stride": 3 if q else 1}, workers=10, heap="3g", env_extra=env)
    # beyond the bound: random logs of 5..40 headings over 70 days, random bounds / positions / --today / zone offsets
    common.trace_layer(ctx, "walk-trace", "Trace_Walk.tla", "Trace_Walk.cfg", "walk", "walk-trace-rejected", {"logs": 2000 if q else 30000},
                       "filter/filter.go", selftests=[("selected-heading-dropped", drop_selected), ("unselected-heading-added", add_unselected)])
    if ctx.tier == "thorough":
        vlib.vacuity_check(ctx, "MC_Walk.tla", "MC_Walk_positions.cfg", expect_zero=())
    return vlib.finish(
        ctx, "model_checking",
        rule="Walk.tla (instants in minutes, zone offsets, Lineage override, keywords against --today, summary's local-day interval): "
             "(1) every log of <= 4 headings over a 6-day window x every begin/end pair; (2) one log over the days around today/yesterday/"
             "last7/last30 x every bound spec at global/sub-command/both positions x 5 zones x summary; (3) summary under 53 zone offsets; "
             "invariants SelectedExactly / SummarySelectsThatDay / FileOrderKept.  Every terminal state is replayed on 7 period-aware "
             "commands in-process with time.Local set to the zone (plus a sample on the binary under TZ), including the comparison with "
             "the file that has the other days deleted; beyond the bound, random logs of 5..40 headings over 70 days with random bounds / positions / --today / zone offsets (15-minute steps) validated by TLC against Trace_Walk.tla; non-trivial = a proper non-empty subset of the headings is selected",
        exhaustive=True, extra_cov=dict(),
        trusted=["headings carry unique food names f<i>, from which the selected headings are read back out of every report",
                 "time.Local assignment in-process / TZ on the binary (fixed-offset zones)"])


def drop_selected(tr):
    if tr[1]["selected"]:
        del tr[1]["selected"][-1]
        return tr
    return None


def add_unselected(tr):
    sel = tr[1]["selected"]
    missing = [i for i in range(1, len(tr[0]["log"]) + 1) if i not in sel]
    if missing:
        tr[1]["selected"] = sorted(sel + [missing[0]])
        return tr
    return None


def replay(ctx, path):
    import json
    print(json.dumps(json.load(open(path)), indent=1)[:5000])
    return 0
