"""C05 - every report is a pure function of its inputs."""
import os
import vlib
from props import common


def run(ctx):
    ctx.build_harness()
    q = ctx.tier == "quick"
    # map-iteration sites: output independent of the order the runtime picks (all permutations of <= 4 keys, ties)
    ctx.tlc_must_pass("Determinism.tla", "MC_Determinism.cfg", workers=4, label="Determinism: every iteration order x ties x site kinds of the code")
    # the resolver's outer range: outcome and result independent of the visiting order (all orders)
    cases = os.path.join(ctx.scratch, "resolver_cases.ndjson")
    r = ctx.tlc_must_pass("MC_Resolver.tla", "MC_Resolver_c11_quick_a.cfg", dump_path=cases, workers=8, label="Resolver: OrderIndependent outcome, every visiting order")
    res0 = ctx.drv("resolver-replay", infile=cases, outfile=os.path.join(ctx.scratch, "res_mm.ndjson"), args={"tries": 64})
    ctx.add("evaluations", res0["runs"])
    ctx.add("traces_validated_against_impl", res0["cases"])
    ctx.cov["resolver_orders_forced"] = res0.get("extra", {})
    # repeated runs: N in one process, M as separate processes, order-unmasking inputs, every command shape
    res = ctx.drv("determinism", outfile=os.path.join(ctx.scratch, "det_mm.ndjson"),
                  args={"rounds": 3 if q else 12, "n": 40 if q else 400, "m": 5 if q else 40}, env_extra={"VERIF_BIN": ctx.build_binary()}, timeout=3000)
    ctx.add("evaluations", res["runs"])
    ctx.add("distinct_nontrivial", res["nontrivial"])
    for s in res.get("samples", [])[:1]:
        ctx.sample(s)
    # the reporters of Reporters.tla are deterministic functions: the replay compares every run with the unique predicted rows
    common.replay_layer(ctx, "MC_Reporters.tla", "MC_Reporters_quick.cfg", "reporters-replay", "reporters", workers=10, heap="3g",
                        shape_filter=lambda sh: sh in ("report-quantity-rows", "report-unresolved-rows", "element-by-food-rows", "report-totals-rows"))
    if ctx.tier == "thorough":
        vlib.vacuity_check(ctx, "Determinism.tla", "MC_Determinism.cfg", expect_zero=())
    return vlib.finish(
        ctx, "model_checking",
        rule="Determinism.tla: every set of <= 4 keys x values with ties x every iteration order, for the site kinds the code uses (keys sorted "
             "before use; name order before the stable sort by value): output = F(input); Resolver.tla: outcome independent of the visiting order "
             "(all orders, replayed with the order forced).  On the real code: 45 command shapes x order-unmasking inputs (6 unresolved foods, ties "
             "in quantities and element amounts, 13-deep chain, many siblings) x N runs in one process and M processes, all byte-identical; statistical for the maps that cannot be forced: with k >= 2 keys a different start offset appears with "
             "probability >= 1/8 per run, so N = 40 misses an order dependence with probability < 0.5 %.  Non-trivial = every (input, shape) pair",
        exhaustive=False, extra_cov=dict(statistical_part="repeated runs sample the runtime's iteration orders; only the resolver's order is forced"),
        trusted=["Go's per-range randomised map iteration start (observed, e.g. through the VerifVisit hook)"])


def replay(ctx, path):
    import json
    print(json.dumps(json.load(open(path)), indent=1)[:5000])
    return 0
