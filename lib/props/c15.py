"""C15 - presentation options never change the numbers."""
import vlib
from props import common


def run(ctx):
    ctx.build_harness()
    q = ctx.tier == "quick"
    # Present.tla: the rendering of a report item under every flag combination, model-checked ...
    ctx.tlc_must_pass("MC_Present.tla", "MC_Present_quick.cfg" if q else "MC_Present_thorough.cfg", workers=8, heap="3g", timeout=1800)
    res = common.replay_layer(ctx, "MC_Reporters.tla", "MC_Reporters_quick.cfg" if q else "MC_Reporters_thorough.cfg", "presentation-replay", "presentation",
                              args={"stride": 6 if q else 1}, workers=10, heap="3g")
    # ... and bound to the real register by trace validation: the lines and fields of the real output under all 36 combinations
    import os
    cases = os.path.join(ctx.scratch, "presentation_cases.ndjson")
    tr = os.path.join(ctx.scratch, "present_trace.ndjson")
    mm = os.path.join(ctx.scratch, "present_trace_mm.ndjson")
    r2 = ctx.drv("present-trace", infile=cases, outfile=mm, tracefile=tr, args={"stride": 40 if q else 4})
    vlib.validate_traces(ctx, "Trace_Present.tla", "Trace_Present.cfg", tr, "present-trace-rejected", "cmd/hranoprovod-cli/internal/register", timeout=2400, heap="4g")
    vlib.binding_selftest(ctx, "Trace_Present.tla", "Trace_Present.cfg", tr, [("amount-colour-changed", recolour), ("line-dropped", drop_line), ("name-cut-flag-flipped", flip_cut)])
    ctx.add("evaluations", r2["runs"])
    if not q:
        vlib.vacuity_check(ctx, "MC_Present.tla", "MC_Present_quick.cfg")
    # across processes (the real binary): whole log in one process = blocks in separate processes; default = interleaving
    rb = ctx.drv("compose-binary", outfile=os.path.join(ctx.scratch, "compose_bin_mm.ndjson"), env_extra={"VERIF_BIN": ctx.build_binary()})
    ctx.add("evaluations", rb["runs"])
    # collapse modes of the balance never change the amounts: Balance.tla ModesAgreeOnLeaves, replayed
    common.replay_layer(ctx, "MC_Balance.tla", "MC_Balance_quick.cfg", "balance-replay", "balance", workers=10, heap="3g")
    return vlib.finish(
        ctx, "model_checking",
        rule="Present.tla: rendering of a report item by the default / left-aligned templates and the old reporter under colour x shorten x totals mode (SameRecords, Interleaved, StripIsPlain, ColourBySign, CutOnlyWhenTooLong, AppendOnly, StepIsRenderDay over every history of <= 1-2 days x 36 flag sets); the lines and fields of the real `reg` under all 36 combinations validated by TLC against Trace_Present.tla.  Reporters.tla fixes the records of the register (RegisterExact); for every enumerated log with names of 19, 20, 21, 26, 27, 28 and 40 "
             "runes (ASCII, accented, CJK, inner blanks) the register is produced under all 3 templates x shorten x {totals, --no-totals, "
             "--totals-only} x colour {--no-color global, --no-color on the sub-command, on} = 54 combinations: same records as the plain default "
             "rendering (= the specification's), shortened names keep a prefix and a suffix within the column, coloured = plain after removing escape "
             "codes with red / green / none by sign, default = no-totals body + totals-only tail per day, --desc permutes rows only; balance collapse "
             "modes via Balance.tla ModesAgreeOnLeaves; non-trivial = every replayed case",
        exhaustive=True, extra_cov=dict(),
        trusted=["row parsers of the three register renderings", "layout-only differences (the old reporter prints no TOTAL header for an empty day) are below the record abstraction on purpose"])


def _amt_fields(tr):
    for e in tr:
        if e.get("ev") == "Day":
            for ln in e["lines"]:
                for f in ln["f"]:
                    yield e, ln, f


def recolour(tr):
    for e, ln, f in _amt_fields(tr):
        if f["t"] == "amt" and f["v"] != 0:
            f["col"] = "green" if f["col"] != "green" else "red"
            return tr
    return None


def drop_line(tr):
    for e in tr:
        if e.get("ev") == "Day" and len(e["lines"]) >= 2:
            del e["lines"][-1]
            return tr
    return None


def flip_cut(tr):
    for e, ln, f in _amt_fields(tr):
        if f["t"] == "name":
            f["cut"] = not f["cut"]
            return tr
    return None


def replay(ctx, path):
    import json
    print(json.dumps(json.load(open(path)), indent=1)[:5000])
    return 0
