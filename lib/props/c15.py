"""C15 - presentation options never change the numbers."""
import vlib
from props import common


def run(ctx):
    ctx.build_harness()
    q = ctx.tier == "quick"
    common.replay_layer(ctx, "MC_Reporters.tla", "MC_Reporters_quick.cfg" if q else "MC_Reporters_thorough.cfg", "presentation-replay", "presentation",
                        args={"stride": 6 if q else 1}, workers=10, heap="3g")
    # collapse modes of the balance never change the amounts: Balance.tla ModesAgreeOnLeaves, replayed
    common.replay_layer(ctx, "MC_Balance.tla", "MC_Balance_quick.cfg", "balance-replay", "balance", workers=10, heap="3g")
    return vlib.finish(
        ctx, "model_checking",
        rule="Reporters.tla fixes the records of the register (RegisterExact); for every enumerated log with names of 19, 20, 21, 26, 27, 28 and 40 "
             "runes (ASCII, accented, CJK, inner blanks) the register is produced under all 3 templates x shorten x {totals, --no-totals, "
             "--totals-only} x colour {--no-color global, --no-color on the sub-command, on} = 54 combinations: same records as the plain default "
             "rendering (= the specification's), shortened names keep a prefix and a suffix within the column, coloured = plain after removing escape "
             "codes with red / green / none by sign, default = no-totals body + totals-only tail per day, --desc permutes rows only; balance collapse "
             "modes via Balance.tla ModesAgreeOnLeaves; non-trivial = every replayed case",
        exhaustive=True, extra_cov=dict(),
        trusted=["row parsers of the three register renderings", "layout-only differences (the old reporter prints no TOTAL header for an empty day) are below the record abstraction on purpose"])


def replay(ctx, path):
    import json
    print(json.dumps(json.load(open(path)), indent=1)[:5000])
    return 0
