"""C09 - malformed entries are reported with their exact line by lint and every command."""
import vlib
from props import common


def run(ctx):
    ctx.build_harness()
    q = ctx.tier == "quick"
    # character level: MalformedExactly is one of the invariants of the Lexer configuration
    common.replay_layer(ctx, "MC_Lexer.tla", "MC_Lexer_quick.cfg" if q else "MC_Lexer_thorough6d.cfg", "lexer-replay", "lexer",
                        workers=8 if q else 14, heap="2g" if q else "4g")
    # the same under a configured comment character (parser.Config.CommentChar = ';')
    common.replay_layer(ctx, "MC_Lexer.tla", "MC_Lexer_cc.cfg", "lexer-replay", "lexercc", args={"cc": ";"}, workers=8, heap="2g")
    # line level: malformed lines planted at every position, 4 callback policies
    common.replay_layer(ctx, "MC_Parser.tla", "MC_Parser_bad_quick.cfg" if q else "MC_Parser_bad_thorough.cfg", "parser-replay", "parser",
                        args={"variants": 2 if q else 3}, heap="3g" if q else "6g")
    # lint: the messages printed for every enumerated file, with and without --silent
    common.replay_layer(ctx, "MC_Parser.tla", "MC_Parser_lint_quick.cfg" if q else "MC_Parser_lint_thorough.cfg", "lint-replay", "lint",
                        args={}, heap="3g" if q else "6g")
    # command level: which error reaches the exit status of every command shape
    common.cli_layer(ctx, shape_filter=lambda sh: "malformed" in sh)
    # long random files with planted errors: callback traces validated by TLC
    common.trace_layer(ctx, "parser-trace", "Trace_Parser.tla", "Trace_Parser.cfg", "parser", "parser-trace-rejected",
                       {"files": 200 if q else 4000, "bad": 60}, "parser/parser.go",
                       selftests=[("error-line-shifted", shift_line)])
    return vlib.finish(
        ctx, "model_checking",
        rule="Lexer.tla: MalformedExactly over every line up to the bound; Parser.tla: every file of <= 4 abstract lines over 11 kinds "
             "(malformed lines at every position, orphans included) x 4 callback policies with LineNumberPhysical / FirstErrorReturned / "
             "AllErrorsOnceInOrder; lint output for every such file; Cli.tla: every command shape x placement of the first malformed "
             "entry in book / log, replayed in-process and on the binary (exit status, error kind, line number, quoted line); random long "
             "files as traces.  Non-trivial = the file has a malformed line or an entry",
        exhaustive=True, extra_cov=dict(spec_variant="repaired"),
        trusted=["harness concretiser (forms of malformed lines: no blank before the value / value not a number)",
                 "error classification by Go error type (in-process) and by message text (binary)"])


def shift_line(tr):
    for e in tr:
        if e["ev"] == "Err":
            e["line"] += 1
            return tr
    return None


def replay(ctx, path):
    import json
    print(json.dumps(json.load(open(path)), indent=1)[:4000])
    return 0
