"""Building blocks shared by several property checks."""
import os
import vlib


def replay_layer(ctx, module, cfg, mode, tag, args=None, workers=10, heap="3g", timeout=1800, env_extra=None, sample_n=2, shape_filter=None, tracefile=None):
    """TLC explores <cfg> exhaustively and prints one JSON line per terminal state; the harness mode
    replays each on the real code.  Mismatches become violations (through ctx.drv)."""
    cases = os.path.join(ctx.scratch, tag + "_cases.ndjson")
    if os.path.exists(cases):
        os.remove(cases)
    r = ctx.tlc_must_pass(module, cfg, dump_path=cases, workers=workers, heap=heap, timeout=timeout)
    if r["dumped"] == 0:
        raise vlib.Infra("TLC printed no terminal state for " + cfg)
    mm = os.path.join(ctx.scratch, tag + "_mm.ndjson")
    res = ctx.drv(mode, infile=cases, outfile=mm, tracefile=tracefile, args=args or {}, env_extra=env_extra, shape_filter=shape_filter)
    if res["cases"] != r["dumped"]:
        raise vlib.Infra("%s replayed %d of %d cases" % (mode, res["cases"], r["dumped"]))
    ctx.add("evaluations", res["runs"])
    ctx.add("distinct_nontrivial", res["nontrivial"])
    ctx.add("traces_validated_against_impl", res["cases"])
    for s in res.get("samples", [])[:sample_n]:
        ctx.sample(s)
    return res


def trace_layer(ctx, mode, module, cfg, tag, shape, args, site="", selftests=None, sample_n=1):
    """The harness mode records executions of the real code as traces; TLC validates them."""
    tr = os.path.join(ctx.scratch, tag + "_trace.ndjson")
    mm = os.path.join(ctx.scratch, tag + "_trace_mm.ndjson")
    res = ctx.drv(mode, outfile=mm, tracefile=tr, args=args)
    vlib.validate_traces(ctx, module, cfg, tr, shape, site)
    if selftests:
        vlib.binding_selftest(ctx, module, cfg, tr, selftests)
    ctx.add("evaluations", res["runs"])
    ctx.add("distinct_nontrivial", res["nontrivial"])
    for s in res.get("samples", [])[:sample_n]:
        ctx.sample(s)
    return res


def cli_layer(ctx, cfg="MC_Cli_quick.cfg", binary=True, shape_filter=None):
    env = {}
    if binary:
        env["VERIF_BIN"] = ctx.build_binary()
    ctx.tlc_must_pass("MC_Cli.tla", "MC_Cli_live.cfg", workers=8, label="liveness: every command run ends")
    return replay_layer(ctx, "MC_Cli.tla", cfg, "cli-replay", "cli", args={"binary": 1 if binary else 0}, workers=8, heap="2g", env_extra=env, shape_filter=shape_filter)
