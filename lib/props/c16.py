"""C16 - settings follow flag > environment > configuration file > default."""
import vlib
from props import common


def run(ctx):
    ctx.build_harness()
    q = ctx.tier == "quick"
    env = {"VERIF_BIN": ctx.build_binary()}
    for s in ("db", "log", "fmt", "depth", "today"):
        common.replay_layer(ctx, "Options.tla", "MC_Options_%s.cfg" % s, "options-replay", "opt_" + s, args={"stride": 1}, workers=6, heap="2g", env_extra=env, sample_n=1)
    common.replay_layer(ctx, "Options.tla", "MC_Options_all.cfg", "options-replay", "opt_all", args={"stride": 40 if q else 2}, workers=8, heap="2g", env_extra=env, sample_n=1)
    if not q:
        common.replay_layer(ctx, "Options.tla", "MC_Options_full.cfg", "options-replay", "opt_full", args={"stride": 30}, workers=10, heap="3g", env_extra=env, sample_n=1)
    if ctx.tier == "thorough":
        vlib.vacuity_check(ctx, "Options.tla", "MC_Options_db.cfg", expect_zero=())
    return vlib.finish(
        ctx, "model_checking",
        rule="Options.tla: for each setting the full product {flag} x {env} x {config entry} x {default config present/absent} x {--config "
             "unset/existing/missing} x {HR_CONFIG unset/existing/missing} x --no-database (every state replayed), and all five settings "
             "varying together (32 768 states; thorough also the full product of 589 824 states, both sampled by a seeded stride for the "
             "replay); invariants Precedence, ExplicitConfigLoadedOrError, NoDatabaseIsEmptyBook.  Each state is realised on the real binary "
             "in a scratch HOME under an unknown uid with distinguishable values at every level; `stats` and two depth probes reveal the "
             "effective values; non-trivial = some setting has at least two competing sources",
        exhaustive=True, extra_cov=dict(),
        trusted=["stats output as the observation of the effective book / log / date format / current date",
                 "running the CGO-free binary as uid 54321 makes user.Current() use $HOME"])


def replay(ctx, path):
    import json
    print(json.dumps(json.load(open(path)), indent=1)[:5000])
    return 0
