#!/usr/bin/env python3
"""usage: lib/confirm_seeded.py <worktree> <mutant dir> -> prints one JSON object
Re-confirms a seeded change in a scratch worktree of /repo (never in /repo): with the change applied the project
builds and its existing tests pass, the author's demonstration fails; without it the demonstration passes.
The demonstration is demo/demo.sh (run with the worktree as first argument) and / or Go test files whose
intended path is named in NOTES.md."""
import json, os, re, shutil, subprocess, sys

wt, md = os.path.abspath(sys.argv[1]), os.path.abspath(sys.argv[2])
ENV = dict(os.environ, GOPROXY="off", GOSUMDB="off", GOTOOLCHAIN="local")
ENV.pop("GOFLAGS", None)


def sh(cmd, cwd, timeout=900):
    try:
        p = subprocess.run(cmd, cwd=cwd, shell=True, env=ENV, capture_output=True, text=True, timeout=timeout)
        return p.returncode, (p.stdout + p.stderr)[-3000:]
    except subprocess.TimeoutExpired:
        return 124, "timeout"


def clean():
    sh("git checkout -q -- . && git clean -fdq -e _mutants", wt)


def baseline():
    rc1, o1 = sh("go build ./... && go test -vet=off -count=1 ./...", wt)
    rc2, o2 = sh("go build ./... && go test -vet=off -count=1 ./...", os.path.join(wt, "cmd/hranoprovod-cli"))
    return rc1 == 0 and rc2 == 0, o1 + o2


notes = open(os.path.join(md, "NOTES.md")).read() if os.path.exists(os.path.join(md, "NOTES.md")) else ""
demo = os.path.join(md, "demo")
tests = []
for root, _, files in os.walk(demo):
    for f in files:
        if f.endswith("_test.go"):
            m = re.findall(r"([\w./-]*/" + re.escape(f) + r")", notes)
            m = [x for x in m if not x.startswith("/") and "_mutants" not in x and "demo/" not in x]
            tests.append((os.path.join(root, f), m[0] if m else None))
race = "-race" in notes


def run_demo():
    """True = the demonstration passes (property holds)"""
    results = []
    placed = []
    for src, dst in tests:
        if not dst:
            continue
        d = os.path.join(wt, dst)
        os.makedirs(os.path.dirname(d), exist_ok=True)
        shutil.copy(src, d)
        placed.append(d)
    try:
        for src, dst in tests:
            if not dst:
                continue
            mod = os.path.join(wt, "cmd/hranoprovod-cli") if dst.startswith("cmd/hranoprovod-cli/") else wt
            pkg = "./" + os.path.dirname(os.path.relpath(os.path.join(wt, dst), mod))
            rc, out = sh("go test -vet=off -count=1 %s %s" % ("-race" if race else "", pkg), mod)
            results.append(rc == 0)
        if os.path.exists(os.path.join(demo, "demo.sh")):
            rc, out = sh("sh %s %s" % (os.path.join(demo, "demo.sh"), wt), demo)
            if rc != 0:
                rc2, out2 = sh("bash %s %s" % (os.path.join(demo, "demo.sh"), wt), demo)
                rc = rc2
            results.append(rc == 0)
    finally:
        for d in placed:
            os.remove(d)
    return results


res = dict(applies=False)
clean()
rc, out = sh("git apply --check %s && git apply %s" % (os.path.join(md, "patch.diff"), os.path.join(md, "patch.diff")), wt)
if rc == 0:
    res["applies"] = True
    ok, out = baseline()
    res["existing_tests_pass_with_change"] = ok
    r1 = run_demo()
    res["demo_ran"] = len(r1) > 0
    res["demo_fails_with_change"] = len(r1) > 0 and not all(r1)
    clean()
    r2 = run_demo()
    res["demo_passes_without_change"] = len(r2) > 0 and all(r2)
    res["demos"] = len(r1)
clean()
print(json.dumps(res))
