#!/bin/bash
# usage: lib/benign_lanes.sh [lanes] [name pattern]
# Runs every property-preserving change under benign/ (lib/run_benign.sh: all 18 quick checks against a scratch copy of
# /repo with the patch) in parallel lanes; logs in benign/logs/<name>.log, summary on stdout.
cd /verif
lanes=${1:-6}; pat=${2:-.}
mkdir -p benign/logs
ls -d benign/*-b*/ | xargs -n1 basename | grep -E "$pat" > /tmp/benign-all.txt
split -n r/$lanes /tmp/benign-all.txt /tmp/benign-part.
for f in /tmp/benign-part.*; do
  ( while read n; do lib/run_benign.sh $n benign/$n/patch.diff > benign/logs/$n.log 2>&1; done < $f ) &
done
wait
rm -f /tmp/benign-part.* /tmp/benign-all.txt
grep -h "ALARMS:\|BASELINE\|does not apply" benign/logs/*.log | sort
