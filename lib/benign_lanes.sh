#!/bin/bash
# usage: lib/benign_lanes.sh [lanes] [plan file]
# Runs property-preserving changes under benign/ through lib/run_benign.sh in parallel lanes.  Plan file: one line per
# change, "<name> [check id ...]" (no ids = all 18 quick checks); default plan: every change, all checks.
# Logs in benign/logs/<name>.log, summary on stdout.
cd /verif
lanes=${1:-6}; plan=${2:-}
mkdir -p benign/logs
if [ -z "$plan" ]; then plan=/tmp/benign-plan-all.txt; ls -d benign/*-b*/ | xargs -n1 basename > $plan; fi
split -n r/$lanes $plan /tmp/benign-part.
for f in /tmp/benign-part.*; do
  ( while read n checks; do lib/run_benign.sh $n benign/$n/patch.diff $checks > benign/logs/$n.log 2>&1 < /dev/null; done < $f ) &
done
wait
rm -f /tmp/benign-part.*
grep -h "ALARMS:\|BASELINE\|does not apply" benign/logs/*.log | sort
