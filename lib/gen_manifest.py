#!/usr/bin/env python3
"""Regenerates /verif/MANIFEST.json from the registry below (one entry per claimed property)."""
import json
import os
import subprocess

VERIF = os.path.dirname(os.path.dirname(os.path.abspath(__file__)))

ALL = ["C%02d" % i for i in range(1, 19)]

REG = {
 "C01": dict(
    level="model_checking", design="5/C01",
    technique="TLA+ spec Resolver.tla checked exhaustively by TLC (all book shapes x all visiting orders); every terminal state replayed through the real resolver (order forced via the VerifVisit hook)",
    text="TLC decides ResolvedIsSumOfProducts / NoRecipeLeft / SortedNoDuplicates / Idempotent on every book within the bound and every "
         "map visiting order; the code is bound to the spec by replaying each enumerated terminal state through resolver.Resolve and "
         "Resolver.Resolve and comparing the resolved book exactly (float == on dyadic units).",
    note="Bounded: 2-3 recipes, <= 2-3 ingredients, 4-5 names (cfg files). Trusted: the concretisation/abstraction in harness/verifdrv/resolver.go; "
         "integer arithmetic of the spec equals float64 arithmetic of the code on the dyadic values used."),
 "C11": dict(
    level="model_checking", design="5/C11",
    technique="TLA+ spec Resolver.tla: invariant DepthErrorIffHeight and liveness Terminates checked by TLC over all small books (cycles included), a chain family and all visiting orders; terminal states replayed through the real resolver",
    text="TLC decides that the depth error occurs exactly when a reference chain of N or more exists, for every visiting order, and that "
         "resolution terminates; each enumerated (book, N, order) is replayed through both public resolve entry points with the order forced.",
    note="Bounded: 3 recipes x limits 1..4 (all shapes), chains up to 6 (quick) / 14 (thorough) recipes x limits up to 12. For more than 8 recipes the "
         "runtime's map order cannot be forced; insertion order is shuffled and the order observed through the hook."),
}


def main():
    checks = []
    for pid in ALL:
        if pid not in REG:
            continue
        r = REG[pid]
        checks.append(dict(
            property_id=pid,
            quick_cmd="./check %s quick" % pid,
            thorough_cmd="./check %s thorough" % pid,
            evidence_file="/verif/evidence/%s.json" % pid,
            replay_cmd_template="./check %s --replay {path}" % pid,
            engine="tlc+go-harness",
            level_claimed=dict(category=r["level"], text=r["text"], design_ref="DESIGN.md section " + r["design"]),
            level_note=r["note"],
            technique=r["technique"],
        ))
    hooks = subprocess.run(["git", "-C", "/repo", "log", "--format=%h", "--grep", "^verif hook"], capture_output=True, text=True).stdout.split()
    m = dict(
        version=1,
        setup_cmd="./lib/setup.sh",
        hooks=dict(guard="verif",
                   enable="go test -c / go build with -tags verif (done by lib/vlib.py for every check; harness sources are overlaid with -overlay, nothing is copied into /repo)",
                   baseline_off_cmd="/verif/lib/baseline_off.sh",
                   source_commits=hooks, add_only=True),
        engines=[dict(name="tlc+go-harness", path="/verif/check", serves_properties=sorted(REG),
                      kind_free_text="explicit TLA+ specification (spec/*.tla) model-checked by TLC; conformance both ways: TLC-enumerated behaviours "
                                     "replayed into the real code, and traces recorded from the real code validated by TLC against Trace_*.tla")],
        checks=checks,
        notes="See DESIGN.md. KNOWN_FINDINGS.txt lists repaired defects (fixed:) and open findings (finding:).",
        not_applicable=[dict(property_id=p, reason="check under construction in this session; not yet registered") for p in ALL if p not in REG],
    )
    with open(os.path.join(VERIF, "MANIFEST.json"), "w") as f:
        json.dump(m, f, indent=1)
        f.write("\n")


if __name__ == "__main__":
    main()
