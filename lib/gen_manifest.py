#!/usr/bin/env python3
"""Regenerates /verif/MANIFEST.json from the registry below (one entry per claimed property)."""
import json
import os
import subprocess

VERIF = os.path.dirname(os.path.dirname(os.path.abspath(__file__)))

ALL = ["C%02d" % i for i in range(1, 19)]

REG = {
 "C01": dict(
    level="model_checking", design="5/C01",
    technique="TLA+ spec Resolver.tla checked exhaustively by TLC (all book shapes x all visiting orders); every terminal state replayed through the real resolver (order forced via the VerifVisit hook)",
    text="TLC decides ResolvedIsSumOfProducts / NoRecipeLeft / SortedNoDuplicates / Idempotent on every book within the bound and every "
         "map visiting order; the code is bound to the spec by replaying each enumerated terminal state through resolver.Resolve and "
         "Resolver.Resolve and comparing the resolved book exactly (float == on dyadic units).",
    note="Bounded: 2-3 recipes, <= 2-3 ingredients, 4-5 names (cfg files). Trusted: the concretisation/abstraction in harness/verifdrv/resolver.go; "
         "integer arithmetic of the spec equals float64 arithmetic of the code on the dyadic values used."),
 "C11": dict(
    level="model_checking", design="5/C11",
    technique="TLA+ spec Resolver.tla: invariant DepthErrorIffHeight and liveness Terminates checked by TLC over all small books (cycles included), a chain family and all visiting orders; terminal states replayed through the real resolver",
    text="TLC decides that the depth error occurs exactly when a reference chain of N or more exists, for every visiting order, and that "
         "resolution terminates; each enumerated (book, N, order) is replayed through both public resolve entry points with the order forced.",
    note="Bounded: 3 recipes x limits 1..4 (all shapes), chains up to 6 (quick) / 14 (thorough) recipes x limits up to 12. For more than 8 recipes the "
         "runtime's map order cannot be forced; insertion order is shuffled and the order observed through the hook."),
 "C04": dict(
    level="model_checking", design="5/C04",
    technique="TLA+ specs Lexer.tla (every line over a small alphabet) and Parser.tla (every file of abstract lines) checked exhaustively by TLC; TLC's table / terminal states replayed through the real parser; random long files validated as traces against Trace_Parser.tla",
    text="TLC decides GrammarSound / NotesNeverEntries (tokenizer transcription vs. documented format) on every short line and RecordsExact / "
         "LastRecordKept on every short well-formed file; the code is bound by comparing the real parser with TLC's table line -> classification "
         "and with the predicted callback sequence of every enumerated file in random layout variants, and by trace validation of long files.",
    note="Bounded: lines <= 5-8 characters over 9-11 symbols, files <= 5-6 abstract lines over 9 kinds. Values: 'correctly rounded' is decided at the "
         "binding with exact rational arithmetic (math/big), not in TLA+. Trusted: concretiser of layout variants."),
 "C08": dict(
    level="model_checking", design="5/C08",
    technique="TLC: deadlock freedom and termination of Parser.tla / Resolver.tla / Cli.tla (NoPanic); every enumerated file run through 42 command shapes in-process with recover+deadline and on the binary; seeded mutation / random-byte exploration",
    text="Totality and termination are decided on the specification for every token-level file, callback policy, reader fault and command shape; "
         "the same family is executed on the real commands, where any panic, fatal error or missed deadline is a violation. Arbitrary bytes are explored by sampling.",
    note="Token-level inputs are enumerated; arbitrary byte strings are sampled (exploration). Absurd --maxdepth values are outside the quantifier. "
         "A fatal runtime error kills the driver; it is then pinned down by a synchronous second pass."),
 "C09": dict(
    level="model_checking", design="5/C09",
    technique="TLC on Lexer.tla (MalformedExactly), Parser.tla (LineNumberPhysical, FirstErrorReturned, AllErrorsOnceInOrder) and Cli.tla (MalformedFailsEveryCommand); every terminal state replayed on the parser, lint and every command (in-process and binary)",
    text="The definition of 'malformed', the physical line number, first-error-wins for commands and all-errors-in-order for lint are invariants "
         "checked on every small file with malformed lines at every position; the real parser, lint (with and without --silent) and every command shape are held to the predicted events, messages and exit status.",
    note="lint's exit status after reported malformed lines is not fixed by the statement and is not compared. Orphan entries (before any heading) are outside the statement; the model records that they are ignored."),
 "C10": dict(
    level="fault_enumeration", design="5/C10",
    technique="Parser.tla with a failing reader (every line position, clean and mid-line) checked by TLC and replayed; fault enumeration over every byte offset of small files on the real parser and commands; Cli.tla unreadable/missing placements on every command (failing reader, 70 000-byte line, binary)",
    text="The reader is made to fail at every byte offset of generated small files and at every line position of every enumerated file; the parser "
         "and every command must return an error, and the records delivered before it must be a prefix of the complete file's.",
    note="Offsets exhaustive for files <= 160 bytes, every third offset beyond. On the binary a read failure is realised as an over-long line or a missing file."),
 "C02": dict(
    level="model_checking", design="5/C02",
    technique="TLA+ spec Reporters.tla (operational reporters vs. declarative RegisterExact, action property DayOutputLocal) checked exhaustively by TLC; every terminal state rendered to files and replayed through reg (3 renderings) and summary",
    text="TLC decides on every enumerated log that the register chunk (foods in first-appearance order with summed quantities, ingredient rows, "
         "signed totals) equals its declarative definition; the real commands are held to the predicted rows, parsed exactly.",
    note="Bounded: first day <= 3 entries over 3 foods x 5 quantities, a few second days; flat resolved book (nesting is C01's). Trusted: row parsers, dyadic units."),
 "C03": dict(
    level="model_checking", design="5/C03",
    technique="TLA+ spec Balance.tla (AddDeep, printNode, getJump/printNodeCollapsed, single-element variant) checked exhaustively by TLC over all small path sets; every terminal state replayed through the six balance command shapes",
    text="Conservation (ParentIsOwnPlusChildren, GrandTotalIsTopLevelSum), EachPathOnce, SiblingsSorted, ModesAgreeOnLeaves and NoBranchDropped are "
         "invariants over every log of <= 3-4 entries on 14 names; the real balance output is compared row by row with the predicted rows.",
    note="Outside the prefix-free clause only 'no branch dropped' is compared for the collapse modes (the statement fixes nothing more there). Bounded: 2 segments, depth 3."),
 "C17": dict(
    level="fault_enumeration", design="5/C17",
    technique="TLA+ spec Sink.tla (bufio buffer over a failing sink, both flush disciplines) checked by TLC incl. refinement of the sink interface; fault enumeration: every command shape x sink failing from every byte offset, runs validated as traces against Trace_Sink.tla; /dev/full and closed pipe on the binary",
    text="SuccessImpliesAllBytesAccepted is decided on the buffer model for every failure offset; on the real commands the sink is made to fail from every byte "
         "offset of small reports and a boundary-heavy sample of multi-buffer reports, and the exit status is checked against the recorded sink writes.",
    note="Offsets exhaustive for reports <= 400 bytes; sampled (buffer boundaries +- 1, every ~97th) beyond."),
 "C18": dict(
    level="model_checking", design="5/C18",
    technique="TLA+ spec ChanParser.tla (producer goroutine and consumer loop over three unbuffered channels) checked by TLC for every interleaving (safety + liveness under weak fairness); real ParseStream/ParseFile executions with scheduling jitter recorded and validated against Trace_ChanParser.tla (thorough: under the race detector)",
    text="Every interleaving of the two processes is explored for every scenario of <= 4 callback events, three entry kinds and both consumer policies; "
         "recorded receive sequences of the real adapter must be behaviours of the specification (producer steps are silent).",
    note="What happens to the producer after a consumer that stops at the first error, and a draining consumer of ParseFile on an unreadable path, are outside the statement and not judged."),
 "C06": dict(
    level="model_checking", design="5/C06",
    technique="TLA+ spec Walk.tla (instants, zone offsets, Lineage override, keywords against --today, summary's local-day interval) checked exhaustively by TLC; every terminal state replayed on 7 period-aware commands in-process with time.Local set to the zone, a sample on the binary under TZ, plus comparison with the file that has the other days deleted",
    text="SelectedExactly / SummarySelectsThatDay / FileOrderKept are invariants over every log of <= 4 headings in a 6-day window x every bound pair, "
         "and over every bound spec (absent, date, today, yesterday, last7, last30) at global / sub-command / both positions x 5 zones, and summary under "
         "53 zone offsets; the real commands must show exactly the predicted headings and print byte-identical output for the pruned file.",
    note="Fixed-offset zones (no DST transition on the tested dates). Natural-language dates are excluded (they use the real clock). Quick tier replays a seeded 1-in-k selection of the positions family."),
 "C16": dict(
    level="model_checking", design="5/C16",
    technique="TLA+ spec Options.tla (LoadConfigFile, Populate*) checked by TLC over the full product of sources; every state of the per-setting slices and a seeded sample of the product realised on the real binary in a scratch HOME under an unknown uid with distinguishable values at every level",
    text="Precedence, ExplicitConfigLoadedOrError and NoDatabaseIsEmptyBook are invariants over {flag} x {env} x {config entry} x {default config present} x "
         "{--config unset/existing/missing} x {HR_CONFIG unset/existing/missing} x --no-database; the binary's effective book, log, date format, "
         "depth and current date are observed through stats, csv log and two depth probes.",
    note="The product of all five settings is replayed by a seeded stride (the per-setting slices are replayed completely). Needs the right to run a child process under another uid (root in this sandbox)."),
 "C05": dict(
    level="model_checking", design="5/C05",
    technique="TLA+ spec Determinism.tla (every map-iteration site: all permutations x ties) and Resolver.tla (every visiting order) checked by TLC; resolver orders forced on the real code; every command shape repeated N times in-process and M times as processes on order-unmasking inputs",
    text="That the output is a function of the input whatever order the runtime picks is an invariant over all permutations for the site kinds the code uses, and over all visiting "
         "orders of the resolver (replayed with the order forced); for maps whose order cannot be forced the real commands are run repeatedly and must be byte-identical.",
    note="Statistical for maps that cannot be forced (miss probability < 0.5 % per site at N = 40, far less at N = 400). How ties are ordered is not judged, only that it is stable."),
 "C07": dict(
    level="model_checking", design="5/C07",
    technique="TLA+ spec Reporters.tla runs all reporters in lock-step over one log with the Agree_* relations as invariants (TLC, exhaustive); every reporter bound to the code by replay; Balance.tla / Resolver.tla / Walk.tla cover the balance, element-total and stats relations; relations also evaluated directly on pairs of real outputs",
    text="Because each reporter is specified from its own code path and bound to the code by comparing its rows exactly, a relation TLC proves between the specified reports holds between the real ones; "
         "in addition the relations are evaluated directly on real outputs for random logs over nested books.",
    note="Bounded universes as in C02 / C03 / C01 / C06; direct relations on integer data (printed figures exact)."),
 "C12": dict(
    level="model_checking", design="5/C12",
    technique="TLA+ spec Reporters.tla: action property DayOutputLocal and invariant PeriodAdditive (TLC, exhaustive); real commands on L1, L2 and the concatenated file for every split of every enumerated history; Day traces of real reporters validated against Trace_Reporters.tla",
    text="Per-day output is appended chunk by chunk as a function of the current day only (action property over every enumerated history), period accumulators are additive; "
         "the real commands are run on the parts and on the concatenated file and compared byte for byte / row sum by row sum, and real per-day chunks are validated step by step by TLC.",
    note="Histories of up to 3 blocks in the exhaustive part (repeated date, empty day, permuted day), up to 8 days in traces."),
 "C13": dict(
    level="model_checking", design="5/C13",
    technique="Reporters.tla CsvRows_Log and Resolver.tla terminal states (TLC, exhaustive) replayed through csv log / csv database / csv database-resolved and read back with an independent strict RFC 4180 reader; half-unit relation on decimal data with exact rationals",
    text="Row structure (one row per (day, distinct food) in file order; one per entry in file order; sorted by recipe then element) is decided on the specification and compared with the real exports "
         "read by a hand-written strict RFC 4180 reader; names with commas, quotes, tabs, non-ASCII text; amounts within half a unit of the last digit.",
    note="The RFC 4180 byte grammar is decided at the binding (strict reader), not in TLA+. A slack of 1e-6 units is allowed for the float64 representation of decimal literals at exact ties."),
 "C14": dict(
    level="model_checking", design="5/C14",
    technique="Lexer.tla PrintFormReadsBack / NoteFixpoint (TLC over every short line); Reporters.tla merged rows as the predicted read-back; every enumerated log printed under 6 date formats and read back with print, csv log and the parser",
    text="What print writes for any producible name and any documented note lexes back to the same tokens (invariants over all lines up to the bound); on the real commands the printed log "
         "must be readable under the same options, print again byte-identically, and read back to the merged rows, notes and headings.",
    note="Notes outside the documented forms (punctuation at the ends) are outside the statement; the model records that they reach a fixpoint after a second parse."),
 "C15": dict(
    level="model_checking", design="5/C15",
    technique="Reporters.tla fixes the records (RegisterExact); the real register is produced under all 54 combinations of template x shorten x totals mode x colour (global / sub-command flag) on every enumerated log with long names and compared record by record; Balance.tla ModesAgreeOnLeaves for the collapse modes",
    text="Every combination of presentation switches must show the records the specification predicts (shortened names keep a prefix and suffix within the column), coloured output equals plain output "
         "after removing escape codes with the colour given by the sign, and default = no-totals + totals-only per day.",
    note="Layout-only differences are below the record abstraction on purpose."),
}


def main():
    checks = []
    for pid in ALL:
        if pid not in REG:
            continue
        r = REG[pid]
        checks.append(dict(
            property_id=pid,
            quick_cmd="./check %s quick" % pid,
            thorough_cmd="./check %s thorough" % pid,
            evidence_file="/verif/evidence/%s.json" % pid,
            replay_cmd_template="./check %s --replay {path}" % pid,
            engine="tlc+go-harness",
            level_claimed=dict(category=r["level"], text=r["text"], design_ref="DESIGN.md section " + r["design"]),
            level_note=r["note"],
            technique=r["technique"],
        ))
    hooks = subprocess.run(["git", "-C", "/repo", "log", "--format=%h", "--grep", "^verif hook"], capture_output=True, text=True).stdout.split()
    m = dict(
        version=1,
        setup_cmd="./lib/setup.sh",
        hooks=dict(guard="verif",
                   enable="go test -c / go build with -tags verif (done by lib/vlib.py for every check; harness sources are overlaid with -overlay, nothing is copied into /repo)",
                   baseline_off_cmd="/verif/lib/baseline_off.sh",
                   source_commits=hooks, add_only=True),
        engines=[dict(name="tlc+go-harness", path="/verif/check", serves_properties=sorted(REG),
                      kind_free_text="explicit TLA+ specification (spec/*.tla) model-checked by TLC; conformance both ways: TLC-enumerated behaviours "
                                     "replayed into the real code, and traces recorded from the real code validated by TLC against Trace_*.tla")],
        checks=checks,
        notes="See DESIGN.md. KNOWN_FINDINGS.txt lists repaired defects (fixed:) and open findings (finding:).",
        not_applicable=[dict(property_id=p, reason="no check registered") for p in ALL if p not in REG],
    )
    with open(os.path.join(VERIF, "MANIFEST.json"), "w") as f:
        json.dump(m, f, indent=1)
        f.write("\n")


if __name__ == "__main__":
    main()
