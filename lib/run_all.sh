#!/bin/bash
# runs every registered check (tier $1, default quick) on the current tree; prints one line per check
cd "$(dirname "$0")/.."
tier=${1:-quick}
fail=0
for i in 01 02 03 04 05 06 07 08 09 10 11 12 13 14 15 16 17 18; do
  out=$(./check C$i $tier 2>&1); rc=$?
  echo "C$i rc=$rc $(echo "$out" | tail -1 | cut -c1-140)"
  if [ $rc -ne 0 ]; then fail=1; echo "$out" | grep -E 'VIOLATION|shape=|INFRA' | head -6; fi
done
exit $fail
