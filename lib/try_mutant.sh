#!/bin/bash
# usage: lib/try_mutant.sh <seeded id> <check id>  -- runs this copy's quick check against a scratch copy of /repo with the seeded patch
set -u
m=$1; id=$2; w=/tmp/tm-$m-$id
rm -rf $w; mkdir -p $w; trap 'rm -rf $w' EXIT
cp -a /repo $w/repo; git -C $w/repo checkout -q -- .
git -C $w/repo apply /verif/seeded/$m/patch.diff || { echo "$m: does not apply"; exit 2; }
out=$(cd "$(dirname "$0")/.." && VERIF_REPO=$w/repo ./check $id quick 2>&1); rc=$?
echo "$m $id rc=$rc shapes: $(echo "$out" | grep '^  shape=' | sed 's/^  shape=\([^ ]*\).*/\1/' | sort | uniq -c | tr '\n' ' ')"
